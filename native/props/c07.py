"""C07 — copies are faithful to the source and independent of it (bounded stand-in).

Part 1 (mut.sweep): every copy route of ops.enum_ops (add_child(node) shallow/deep, cross-tree,
add_child(tree), copy_to, Tree.copy_to) against the independent model: fresh nodes, same data
objects, same data_ids, kinds, order, position; source tree (incl. the order of its child lists)
unchanged.
Part 2 (here): Tree.copy / Node.copy(add_self) : result class, isomorphic to the source branch with
identical data objects / ids / kinds, all nodes fresh, source unchanged; then *independence*: every
single mutation of ops.enum_ops applied to the copy leaves the source unchanged, and vice versa.
"""
from __future__ import annotations

from .. import gen, ops, view
from ..harness import Result, Violation, clip, parallel
from . import mut


def iso(a_node, b_node, path=""):
    """structural comparison of two branches: same data objects (identity), data_id, kind, order."""
    out = []
    ka, kb = view.kids(a_node), view.kids(b_node)
    if len(ka) != len(kb):
        return [f"{path or '/'}: {len(kb)} children in the copy, {len(ka)} in the source"]
    for i, (x, y) in enumerate(zip(ka, kb)):
        here = f"{path}/{x._data!r}"
        if x is y:
            out.append(f"{here}: the copy shares the node object with the source")
        if x._data is not y._data:
            out.append(f"{here}: data object differs")
        if x._data_id != y._data_id:
            out.append(f"{here}: data_id {y._data_id!r} vs source {x._data_id!r}")
        if getattr(x, "_kind", None) != getattr(y, "_kind", None):
            out.append(f"{here}: kind {getattr(y, '_kind', None)!r} vs source {getattr(x, '_kind', None)!r}")
        out += iso(x, y, here)
    return out


def _copy_chunk(chunk, prop):
    res = Result(prop)
    for spec in chunk:
        tree, nodes = gen.build(spec)
        before = view.obs(tree)
        # Tree.copy
        cases = [("Tree.copy", None, True)] + [("Node.copy", i, a) for i in range(len(nodes)) for a in (True, False)]
        for func, i, add_self in cases:
            res.add_case(f"{spec.short()} {func} {i} {add_self}", nontrivial=len(nodes) > 0)
            wit = {"kind": "copy", "spec": mut._spec_json(spec), "func": func, "node": i, "add_self": add_self}
            try:
                cp = tree.copy() if func == "Tree.copy" else nodes[i].copy(add_self=add_self)
            except Exception as e:  # noqa: BLE001
                res.violations.append(Violation(prop, "no exception", func, wit, clip(f"raised {type(e).__name__}: {e}")))
                continue
            if type(cp) is not type(tree):
                res.violations.append(Violation(prop, "ensures result is a tree of the source's class", func, wit, f"{type(cp).__name__} vs {type(tree).__name__}"))
            if func == "Tree.copy":
                diffs = iso(tree._root, cp._root)
            elif add_self:
                class _P:  # wrap: the copy's root has one child = copy of nodes[i]
                    pass
                a, b = _P(), _P()
                a._children, b._children = [nodes[i]], list(view.kids(cp._root))
                diffs = iso(a, b)
            else:
                diffs = iso(nodes[i], cp._root)
            for d in diffs[:3]:
                # known finding F15: the *top* node of a typed Node.copy(add_self=True) gets the default kind -- that node only;
                # a lost kind anywhere else (Tree.copy, deeper levels) is a violation of its own
                f15 = func == "Node.copy" and add_self and "kind 'child' vs" in d and d.split(": kind ")[0].count("/") == 1
                res.violations.append(Violation(prop, "effect" if f15 else "ensures copy is isomorphic with identical data objects, ids, kinds", func, wit, clip(d.replace("vs source", "vs spec") if f15 else d)))
            for v in view.wf_violations(cp):
                res.violations.append(Violation(prop, "ensures wf(copy)", func, wit, v))
            if view.obs(tree) != before:
                res.violations.append(Violation(prop, "ensures source unchanged", func, wit, clip(view.fmt(tree))))
                before = view.obs(tree)
    return res


def _xclass_targets(typed):
    """Fresh target trees whose class differs from the source's: a plain subclass, a subclass with its own calc_data_id
    (copies keep the *source's* data_ids all the same) and -- for the other direction -- the base class itself."""
    from nutree import Tree
    from nutree.typed_tree import TypedTree

    base = TypedTree if typed else Tree

    class SubTree(base):
        pass

    class KeyedSubTree(base):
        def calc_data_id(self, data):
            return "k:" + str(data)

    return [("subclass", SubTree), ("subclass+calc_data_id", KeyedSubTree), ("same class", base)]


class _Attr:
    """Data object whose attribute names are the ones a *typed* node has and a plain node lacks: on a tree with
    forward_attrs=True a plain node answers `node._kind` / `node.kind` with these."""

    def __init__(self, lab):
        self.lab, self._kind, self.kind = lab, "data-kind", "data-kind"

    def __repr__(self):
        return f"_Attr({self.lab!r})"

    def __str__(self):
        return self.lab


_ATTR_MEMO: dict = {}


def _mk_attr(lab):
    return _ATTR_MEMO.setdefault(lab, _Attr(lab))


def _fwd_tree_cls():
    from nutree import Tree

    class FwdTree(Tree):
        def __init__(self, name=None, **kw):
            super().__init__(name, forward_attrs=True, **kw)

    return FwdTree


def _xclass_chunk(chunk, prop):
    """copy_to / add(node) into a tree of ANOTHER class (target class a proper subclass of the source's, with and without
    an id hook; source class a proper subclass of the target's): new nodes, same data objects / ids / kinds / order."""
    res = Result(prop)
    for spec in chunk:
        for tname, tcls in _xclass_targets(spec.typed):
            for src_sub in (False, True, "fwd"):
                if src_sub and tname != "same class":
                    continue
                if src_sub == "fwd" and spec.typed:
                    continue
                src_cls = _xclass_targets(spec.typed)[0][1] if src_sub is True else None
                mk = None
                if src_sub == "fwd":  # plain source AND target with forward_attrs=True, data objects that have `_kind` / `kind` attributes
                    src_cls = tcls = _fwd_tree_cls()
                    mk = _mk_attr
                n = len(spec.nodes)
                cases = [("Tree.copy_to", -1, True, d, where) for d in (True, False) for where in ("tree", "node")]
                cases += [("Node.copy_to", i, a, d, where) for i in range(n) for a in (True, False) for d in (True, False) for where in ("tree", "node")]
                cases += [("add(node)", i, True, d, where) for i in range(n) for d in (True, False) for where in ("tree", "node")]
                for func, i, add_self, deep, where in cases:
                    tree, nodes = gen.build(spec, tree_cls=src_cls, mk=mk)
                    before = view.obs(tree)
                    tt = tcls("X")
                    kw = {"kind": "k9"} if spec.typed else {}
                    anchor = tt.add("anchor", **kw)
                    target = tt if where == "tree" else anchor
                    traw = tt._root if where == "tree" else anchor
                    n0 = len(view.kids(traw))
                    src = tree._root if i == -1 else nodes[i]
                    if not add_self and not view.kids(src):
                        continue
                    wit = {"kind": "xclass", "spec": mut._spec_json(spec), "func": func, "node": i, "add_self": add_self, "deep": deep, "where": where, "target": tname, "src_sub": src_sub}
                    res.add_case(f"{spec.short()} {func} {i} {add_self} {deep} {where} {tname} {src_sub}", nontrivial=True)
                    try:
                        if func == "Tree.copy_to":
                            tree.copy_to(target, deep=deep)
                        elif func == "Node.copy_to":
                            nodes[i].copy_to(target, add_self=add_self, deep=deep)
                        else:
                            target.add(nodes[i], deep=deep)
                    except Exception as e:  # noqa: BLE001
                        res.violations.append(Violation(prop, "no exception", func, wit, clip(f"[target: {tname}{', source: subclass' if src_sub is True else ', forward_attrs trees of data objects with _kind / kind attributes' if src_sub else ''}] raised {type(e).__name__}: {e}")))
                        continue

                    class _P:
                        pass

                    a, b = _P(), _P()
                    a._children = list(view.kids(src)) if (i == -1 or not add_self) else [src]
                    b._children = list(view.kids(traw))[n0:]
                    if deep:
                        diffs = iso(a, b)
                    else:  # shallow: the copied nodes only, no descendants
                        sa = _P()
                        sa._children = []
                        for x in a._children:
                            y = _P()
                            y._data, y._data_id, y._children = x._data, x._data_id, None
                            if hasattr(x, "_kind"):
                                y._kind = x._kind
                            sa._children.append(y)
                        diffs = iso(sa, b)
                    for d in diffs[:2]:
                        if "kind 'child' vs" in d:
                            continue  # known finding F15 (shallow copy of a typed node takes the default kind): reported by the same-class sweep
                        res.violations.append(Violation(prop, "ensures copy is isomorphic with identical data objects, ids, kinds", func, wit, clip(f"[target: {tname}{', source: subclass' if src_sub is True else ', forward_attrs trees of data objects with _kind / kind attributes' if src_sub else ''}, {'deep' if deep else 'shallow'}, below the {where}] " + d)))
                    for v in view.wf_violations(tt)[:2]:
                        res.violations.append(Violation(prop, "ensures wf(target)", func, wit, v))
                    if view.obs(tree) != before:
                        res.violations.append(Violation(prop, "ensures source unchanged", func, wit, clip(view.fmt(tree))))
    return res


def _indep_chunk(chunk, prop):
    """later changes to either side are never visible in the other."""
    res = Result(prop)
    for spec in chunk:
        for side in ("copy", "source"):
            for op in ops.enum_ops(spec, ("add", "move", "remove", "data", "sort", "meta")):
                w = ops.World(spec)
                # every source node carries metadata before the copy is taken: whether a copy inherits it is
                # not specified, but it must never *share* the dict with its source
                for i_, n_ in enumerate(w.nodes):
                    n_.set_meta("m", i_)
                    w.mnodes[i_].meta = {"m": i_}
                try:
                    cp = w.tree.copy()
                except Exception:  # noqa: BLE001  (reported by _copy_chunk)
                    continue
                src_objs = {id(n_._meta) for n_ in w.nodes if n_._meta is not None} | {id(n_._children) for n_ in [w.tree._root] + w.nodes if n_._children is not None}
                shared = [c_ for c_ in [cp._root] + view.reachable(cp) if (c_._meta is not None and id(c_._meta) in src_objs) or (c_._children is not None and id(c_._children) in src_objs)]
                if shared:
                    res.violations.append(Violation(prop, "ensures the copy shares no mutable node state (meta dict, child list) with the source", "Tree.copy", {"kind": "indep", "spec": mut._spec_json(spec), "side": side, "op": mut._op_json(op)}, clip(f"copy node {shared[0]!r} shares a dict/list object with the source")))
                    continue
                if side == "copy":
                    # run the op on the copy: rebuild a World whose real tree is the copy
                    w2 = ops.World(spec)
                    w2.tree = cp
                    w2.nodes = view.reachable(cp)
                    if len(w2.nodes) != len(spec.nodes):
                        continue
                    other, target = w.tree, w2
                else:
                    other, target = cp, w
                ob = view.obs(other)
                st, _ = ops.apply_real(target, op)
                res.add_case(f"{spec.short()} {side} {op}", nontrivial=st == "ok")
                if view.obs(other) != ob:
                    res.violations.append(Violation(prop, "ensures a later change to one side is not visible in the other", "Tree.copy", {"kind": "indep", "spec": mut._spec_json(spec), "side": side, "op": mut._op_json(op)}, clip(f"mutating the {side} changed the other tree: {view.fmt(other)}")))
    return res


def run(prop, tier, only=None):
    total = mut.sweep(prop, tier)
    n = 4 if tier == "quick" else 5
    specs = list(gen.plain_specs(n)) + list(gen.typed_specs(3 if tier == "quick" else 4)) + list(gen.explicit_id_specs(3)) + list(gen.eqpair_specs(3))
    hst = gen.history_specs(list(gen.plain_specs(3)) + list(gen.typed_specs(2)))
    big = gen.big_specs(7, 6 if tier == "quick" else 40, lo=18, hi=32)
    total.merge(parallel(_copy_chunk, specs + hst + big, prop, prop=prop))
    total.bounds["Tree.copy / Node.copy"] = f"{len(big)} seeded larger trees with 18..32 nodes; {len(hst)} " + "histories: every tree of <= {n} nodes with all accessors evaluated once, then one of remove / remove(keep_children) / move_to / add / remove_children / sort_children / deep copy (native/hist.py), the checks run on the resulting tree".format(n=3) + f"; all plain forests <= {n} nodes, typed <= {3 if tier == 'quick' else 4}, explicit-id and equal-data variants <= 3; every start node, add_self on/off"
    xs = list(gen.plain_specs(3, min_n=1)) + list(gen.typed_specs(2, min_n=1)) + list(gen.explicit_id_specs(2))
    total.merge(parallel(_xclass_chunk, xs, prop, prop=prop))
    total.bounds["copies into a tree of another class"] = (
        "plain forests with 1..3 nodes, typed 1..2, explicit ids <= 2: Tree.copy_to / Node.copy_to (add_self on/off) / target.add(node), deep and shallow, below the target tree and below a node of it, "
        "target class in {proper subclass, proper subclass with its own calc_data_id, the same class}, and a source of a proper subclass into the base class"
    )
    ispecs = list(gen.plain_specs(2 if tier == "quick" else 3)) + list(gen.typed_specs(2))
    total.merge(parallel(_indep_chunk, ispecs, prop, prop=prop))
    total.bounds["independence after Tree.copy"] = f"forests <= {2 if tier == 'quick' else 3} nodes x every single mutation of ops.enum_ops on either side"
    return total


def replay(witness, prop):
    k = witness.get("kind")
    if k in ("op", "history"):
        return mut.replay(witness, prop)
    spec = mut.spec_from_json(witness["spec"])
    if k == "xclass":
        r = _xclass_chunk([spec], prop)
        return [(v.clause, v.text) for v in r.violations if all(v.witness.get(q) == witness.get(q) for q in ("func", "node", "add_self", "deep", "where", "target", "src_sub"))]
    r = _copy_chunk([spec], prop) if k == "copy" else _indep_chunk([spec], prop)
    return [(v.clause, v.text) for v in r.violations if v.witness == witness or k == "copy" and v.witness.get("func") == witness.get("func") and v.witness.get("node") == witness.get("node") and v.witness.get("add_self") == witness.get("add_self")]
