"""C15 -- kind-aware queries of a typed tree equal filtering the child list by kind
(bounded tier).

For every enumerated TypedTree, every node (plus the system root / the tree for the
child-level queries), every kind present or absent (and ANY_KIND), any_kind on/off: the
kind-aware query on the real code is compared with the answer obtained by filtering the
raw `_children` list of the node (or of its parent) by the raw `_kind` slot.  With
any_kind / ANY_KIND the answer must be the untyped one (C10's oracle, and the result of the
plain `Node` query on the corresponding node of a plain Tree of the same shape).  None of the queries may raise.
"""
from __future__ import annotations

import itertools
import random
import signal
import traceback

from .. import gen, view
from ..harness import Result, Violation, clip, parallel, seed
from .mut import _spec_json, spec_from_json


class _Timeout(BaseException):
    pass


def _on_alarm(signum, frame):
    raise _Timeout()


class _Abort(Exception):
    pass


_LBL: dict = {}


def _r(x):
    if isinstance(x, (list, tuple)):
        return "[" + ", ".join(_r(y) for y in x) + "]"
    if hasattr(x, "_data") and hasattr(x, "_parent"):
        return _LBL.get(id(x), f"<foreign node {x._data!r}>")
    return repr(x)


def _same(a, b) -> bool:
    return len(a) == len(b) and all(x is y for x, y in zip(a, b))


def _idx(lst, x):
    for i, y in enumerate(lst):
        if y is x:
            return i
    return None


def _kname(kind):
    from nutree.typed_tree import ANY_KIND

    return "ANY_KIND" if kind is ANY_KIND else kind


class _Mark:
    def __repr__(self):
        return "<appended by the caller>"


class _Ctx:
    internal: set = frozenset()

    def __init__(self, prop, wit):
        self.prop = prop
        self.wit = wit
        self.out: list[Violation] = []
        self.current = "?"

    def bad(self, func, clause, text, **at):
        w = dict(self.wit)
        w.update(at)
        w["clause"] = clause
        w["func"] = func
        self.out.append(Violation(self.prop, clause, func, w, clip(text)))

    def call(self, func, fn, **at):
        self.current = func
        try:
            return True, fn()
        except _Timeout:
            self.bad(func, "terminates", "call did not return within the time limit", **at)
            raise _Abort()
        except Exception as e:  # noqa: BLE001
            self.bad(func, "raises nothing", f"raised {type(e).__name__}: {e}", **at)
        return False, None

    def is_(self, func, clause, fn, expected, **at):
        ok, v = self.call(func, fn, **at)
        if ok and v is not expected:
            self.bad(func, clause, f"returned {_r(v)}, filtering the raw list gives {_r(expected)}", **at)
        return v if ok else None

    def eq(self, func, clause, fn, expected, **at):
        ok, v = self.call(func, fn, **at)
        if ok and not (type(v) is type(expected) and v == expected):
            self.bad(func, clause, f"returned {v!r}, filtering the raw list gives {expected!r}", **at)
        return v if ok else None

    def seq(self, func, clause, fn, expected, *, materialize=False, **at):
        ok, v = self.call(func, (lambda: list(fn())) if materialize else fn, **at)
        if ok and not (isinstance(v, list) and _same(v, expected)):
            self.bad(func, clause, f"returned {_r(v)}, filtering the raw list gives {_r(expected)}", **at)
        elif ok and not materialize and isinstance(v, list) and id(v) not in self.internal:
            # the caller owns a computed result: what it does to the list must not show in later answers
            # (a node's own child list, which some queries hand out as it is, is left alone)
            mark = _Mark()
            v.append(mark)
            ok2, v2 = self.call(func, fn, **at)
            if ok2 and isinstance(v2, list) and any(e is mark for e in v2):
                self.bad(func, clause, "the result list is shared between calls: after the caller appended to it, the same query answers with the appended element too", **at)
            for k in range(len(v) - 1, -1, -1):
                if v[k] is mark:
                    del v[k]
        return v if ok else None


# kinds no node has: an unrelated one, the tree's DEFAULT_CHILD_TYPE, and names that *contain* / *are contained in*
# a present kind (kinds are compared as whole strings, not by substring or prefix)
# ... and names that read as shell / regex patterns covering a present kind: a kind is an opaque string
ABSENT_KINDS = ("k9", "child", "xk1y", "k", "k?", "k*", "k[12]", "k.", ".*")


def check_tree(prop, tree, nodes, wit, *, spec=None, res: Result | None = None, tag="") -> list[Violation]:
    from nutree.typed_tree import ANY_KIND

    cx = _Ctx(prop, wit)
    _LBL[id(tree._root)] = "<root>"
    for i, n in enumerate(nodes):
        _LBL[id(n)] = f"#{i}({n._data!r}:{n._kind})"
    allnodes = view.reachable(tree)  # pre-order
    cx.internal = {id(n._children) for n in [tree._root] + allnodes if n._children is not None} | {id(lst) for lst in tree._nodes_by_data_id.values()}
    present = sorted({n._kind for n in allnodes})
    kinds = present + [k for k in gen.KINDS + ("k3",) if k not in present][:1] + list(ABSENT_KINDS)
    # query with *equal but not identical* str objects (as parsed from a file / built at run time):
    # the property is about equality of kinds, an implementation comparing with `is` must fail
    kinds = [("".join(list(k)) + "_")[:-1] if isinstance(k, str) else k for k in kinds]
    root = tree._root
    tix = {id(n): i for i, n in enumerate(nodes)}
    plain, pix = None, {}
    if spec is not None:
        _pt, plain = gen.build(gen.Spec(tuple((p, lab, did, None) for p, lab, did, _k in spec.nodes), typed=False))
        pix = {id(n): i for i, n in enumerate(plain)}

    signal.signal(signal.SIGALRM, _on_alarm)
    signal.setitimer(signal.ITIMER_REAL, 20.0)
    try:
        # ---------------- tree-level queries
        top = view.kids(root)
        for kind in kinds + [ANY_KIND]:
            kn = _kname(kind)
            f = top if kind is ANY_KIND else [c for c in top if c._kind == kind]
            cl = "(ANY_KIND: untyped answer)" if kind is ANY_KIND else "(filter by kind)"
            cx.is_("TypedTree.first_child", f"ensures result is first top-level node of that kind or None {cl}", lambda: tree.first_child(kind), f[0] if f else None, kind=kn)
            cx.is_("TypedTree.first_child", f"ensures result is first top-level node of that kind or None {cl}", lambda: tree.first_child(kind=kind), f[0] if f else None, kind=kn)
            cx.is_("TypedTree.last_child", f"ensures result is last top-level node of that kind or None {cl}", lambda: tree.last_child(kind), f[-1] if f else None, kind=kn)
            exp_all = allnodes if kind is ANY_KIND else [n for n in allnodes if n._kind == kind]
            cx.seq("TypedTree.iter_by_type", f"ensures it yields exactly the nodes of that kind in iteration order {cl}", lambda: tree.iter_by_type(kind), exp_all, materialize=True, kind=kn)
            if res is not None:
                res.add_case(f"{tag} tree k={kn}", nontrivial=bool(allnodes))

        # ---------------- child-level queries: every node and the system root
        for i, n in [(-1, root)] + list(enumerate(nodes)):
            ks = view.kids(n)
            for kind in kinds + [ANY_KIND]:
                kn = _kname(kind)
                at = {"node": i, "kind": kn}
                f = ks if kind is ANY_KIND else [c for c in ks if c._kind == kind]
                cl = "(ANY_KIND: untyped answer)" if kind is ANY_KIND else "(filter by kind)"
                cx.seq("TypedNode.get_children", f"ensures result == children of that kind {cl}", lambda: n.get_children(kind), f, **at)
                cx.seq("TypedNode.get_children", f"ensures result == children of that kind {cl}", lambda: n.get_children(kind=kind), f, **at)
                cx.is_("TypedNode.first_child", f"ensures result is first child of that kind or None {cl}", lambda: n.first_child(kind), f[0] if f else None, **at)
                cx.is_("TypedNode.last_child", f"ensures result is last child of that kind or None {cl}", lambda: n.last_child(kind), f[-1] if f else None, **at)
                cx.eq("TypedNode.has_children", f"ensures result == (some child has that kind) {cl}", lambda: n.has_children(kind), bool(f), **at)
                if res is not None:
                    res.add_case(f"{tag} n{i} k={kn}", nontrivial=bool(ks))
            cx.seq("TypedNode.children", "ensures result == all children, independent of kind", lambda: n.children, ks, node=i)

        # ---------------- sibling-level queries: every node
        for i, n in enumerate(nodes):
            sibs = view.kids(n._parent)
            pos = _idx(sibs, n)
            for any_kind in (False, True):
                at = {"node": i, "any_kind": any_kind}
                cl = "(any_kind: untyped answer)" if any_kind else "(same kind only)"
                f = sibs if any_kind else [s for s in sibs if s._kind == n._kind]
                fpos = _idx(f, n)
                for add_self in (False, True):
                    exp = f if add_self else [s for s in f if s is not n]
                    cx.seq("TypedNode.get_siblings", f"ensures result == siblings {cl}", lambda: n.get_siblings(add_self=add_self, any_kind=any_kind), exp, add_self=add_self, **at)
                cx.is_("TypedNode.first_sibling", f"ensures result is the first sibling {cl}", lambda: n.first_sibling(any_kind=any_kind), f[0], **at)
                cx.is_("TypedNode.last_sibling", f"ensures result is the last sibling {cl}", lambda: n.last_sibling(any_kind=any_kind), f[-1], **at)
                cx.is_("TypedNode.prev_sibling", f"ensures result is the nearest preceding sibling or None {cl}", lambda: n.prev_sibling(any_kind=any_kind), f[fpos - 1] if fpos > 0 else None, **at)
                cx.is_("TypedNode.next_sibling", f"ensures result is the nearest following sibling or None {cl}", lambda: n.next_sibling(any_kind=any_kind), f[fpos + 1] if fpos + 1 < len(f) else None, **at)
                cx.eq("TypedNode.get_index", f"ensures result == position in the sibling list {cl}", lambda: n.get_index(any_kind=any_kind), fpos, **at)
                cx.eq("TypedNode.is_first_sibling", f"ensures result == (position == 0) {cl}", lambda: n.is_first_sibling(any_kind=any_kind), fpos == 0, **at)
                cx.eq("TypedNode.is_last_sibling", f"ensures result == (position == last) {cl}", lambda: n.is_last_sibling(any_kind=any_kind), fpos == len(f) - 1, **at)
                if res is not None:
                    res.add_case(f"{tag} n{i} any={any_kind}", nontrivial=len(sibs) > 1)
            # default of any_kind is False (same kind)
            fk = [s for s in sibs if s._kind == n._kind]
            kpos = _idx(fk, n)
            at = {"node": i, "any_kind": "default"}
            cx.seq("TypedNode.get_siblings", "ensures default is any_kind=False, add_self=False", lambda: n.get_siblings(), [s for s in fk if s is not n], **at)
            cx.is_("TypedNode.first_sibling", "ensures default is any_kind=False", lambda: n.first_sibling(), fk[0], **at)
            cx.is_("TypedNode.last_sibling", "ensures default is any_kind=False", lambda: n.last_sibling(), fk[-1], **at)
            cx.is_("TypedNode.prev_sibling", "ensures default is any_kind=False", lambda: n.prev_sibling(), fk[kpos - 1] if kpos > 0 else None, **at)
            cx.is_("TypedNode.next_sibling", "ensures default is any_kind=False", lambda: n.next_sibling(), fk[kpos + 1] if kpos + 1 < len(fk) else None, **at)
            cx.eq("TypedNode.get_index", "ensures default is any_kind=False", lambda: n.get_index(), kpos, **at)
            cx.eq("TypedNode.is_first_sibling", "ensures default is any_kind=False", lambda: n.is_first_sibling(), kpos == 0, **at)
            cx.eq("TypedNode.is_last_sibling", "ensures default is any_kind=False", lambda: n.is_last_sibling(), kpos == len(fk) - 1, **at)
            # with any_kind the typed query equals the untyped query: the same query on the
            # corresponding node of a plain Tree of the same shape
            if plain is not None:
                u = plain[i]
                at = {"node": i, "any_kind": True}
                for name, typed_call, untyped_call, mode in (
                    ("get_siblings", lambda: n.get_siblings(any_kind=True), lambda: u.get_siblings(), "seq"),
                    ("get_siblings", lambda: n.get_siblings(add_self=True, any_kind=True), lambda: u.get_siblings(add_self=True), "seq"),
                    ("first_sibling", lambda: n.first_sibling(any_kind=True), lambda: u.first_sibling(), "node"),
                    ("last_sibling", lambda: n.last_sibling(any_kind=True), lambda: u.last_sibling(), "node"),
                    ("prev_sibling", lambda: n.prev_sibling(any_kind=True), lambda: u.prev_sibling(), "node"),
                    ("next_sibling", lambda: n.next_sibling(any_kind=True), lambda: u.next_sibling(), "node"),
                    ("get_index", lambda: n.get_index(any_kind=True), lambda: u.get_index(), "eq"),
                    ("is_first_sibling", lambda: n.is_first_sibling(any_kind=True), lambda: u.is_first_sibling(), "eq"),
                    ("is_last_sibling", lambda: n.is_last_sibling(any_kind=True), lambda: u.is_last_sibling(), "eq"),
                    ("get_children", lambda: n.get_children(ANY_KIND), lambda: u.get_children(), "seq"),
                    ("first_child", lambda: n.first_child(ANY_KIND), lambda: u.first_child(), "node"),
                    ("last_child", lambda: n.last_child(ANY_KIND), lambda: u.last_child(), "node"),
                    ("has_children", lambda: n.has_children(ANY_KIND), lambda: u.has_children(), "eq"),
                ):
                    ok1, a = cx.call("TypedNode." + name, typed_call, **at)
                    try:
                        b = untyped_call()
                    except Exception:  # noqa: BLE001  -- the untyped query is C10's business
                        continue
                    if not ok1:
                        continue
                    if mode == "seq":
                        same = isinstance(a, list) and [tix.get(id(x)) for x in a] == [pix.get(id(x)) for x in b]
                    elif mode == "node":
                        same = (a is None and b is None) or (a is not None and b is not None and tix.get(id(a), -2) == pix.get(id(b), -3))
                    else:
                        same = type(a) is type(b) and a == b
                    if not same:
                        cx.bad("TypedNode." + name, "ensures with any_kind / ANY_KIND the result equals the untyped query on a plain tree of the same shape", f"typed {_r(a)} vs untyped {b!r}", **at)
            # kind-aware children of the parent seen from the child: consistency
            ok, lst = cx.call("TypedNode.get_children", lambda: n._parent.get_children(n._kind), node=i)
            if ok and not any(c is n for c in lst):
                cx.bad("TypedNode.get_children", "consistent: a node is among its parent's children of its own kind", f"{_r(n)} not in {_r(lst)}", node=i)
    except _Abort:
        pass
    except _Timeout:
        cx.bad(cx.current, "terminates", "call did not return within the time limit")
    finally:
        signal.setitimer(signal.ITIMER_REAL, 0)
    return cx.out


# ------------------------------------------------------------------ sweeps
def _chunk(chunk, prop):
    res = Result(prop)
    for kind, spec in chunk:
        try:
            tree, nodes = gen.build(spec)
            bad = view.wf_violations(tree)
            if bad or any(n._kind != r[3] for n, r in zip(nodes, spec.nodes)):
                res.errors.append(f"{spec.short()}: built tree does not match the spec: {bad}")
                continue
            wit = {"kind_of_input": kind, "spec": _spec_json(spec)}
            res.violations += check_tree(prop, tree, nodes, wit, spec=spec, res=res, tag=spec.short())
        except Exception:  # noqa: BLE001
            res.errors.append(f"{spec.short()}: {traceback.format_exc()[-1200:]}")
    _LBL.clear()
    return res


def _flat_specs(max_w: int, kinds):
    """One parent (a top-level node, or the tree itself) with up to max_w children: every
    kind pattern -- 'every position in the sibling list' beyond the forest bound."""
    labs = [f"c{i}" for i in range(max_w)]
    for w in range(1, max_w + 1):
        for ks in itertools.product(kinds, repeat=w):
            yield gen.Spec(tuple((-1, labs[i], None, ks[i]) for i in range(w)), typed=True)
            yield gen.Spec(((-1, "p", None, kinds[0]),) + tuple((0, labs[i], None, ks[i]) for i in range(w)), typed=True)


def _random_specs(n_trees, max_n):
    base = seed() * 1_000_003 + 15
    out = []
    for k in range(n_trees):
        rng = random.Random(base + k)
        n = rng.randint(4, max_n)
        out.append(("random", gen.random_spec(rng, n, alphabet=tuple("abcdefg"), typed=True, kinds=("k1", "k2", "k3"))))
    return out


def run(prop: str, tier: str, only=None) -> Result:
    quick = tier == "quick"
    n_typed = 4 if quick else 5
    flat_w, flat_kinds = (5, ("k1", "k2")) if quick else (6, ("k1", "k2", "k3"))
    n_rand, max_rand = (2000, 7) if quick else (40000, 8)
    items = [("typed", s) for s in gen.typed_specs(n_typed)]
    if not quick:
        items += [("typed3", s) for s in gen.typed_specs(3, alphabet=("a", "b", "c"), kinds=("k1", "k2", "k3"))]
    items += [("flat", s) for s in _flat_specs(flat_w, flat_kinds)]
    items += _random_specs(n_rand, max_rand)
    # kinds that read as patterns covering each other: 'arg' / 'arg?' / 'arg*' / 'args' / '*' are five different kinds
    items += [("patternkinds", s) for s in _flat_specs(3, ("arg", "arg?", "arg*", "args", "*"))]
    n_hist = 3 if quick else 4
    hst = [("history", s) for s in gen.history_specs(gen.typed_specs(n_hist, min_n=1))]
    big = [("big", s) for s in gen.big_specs(seed() + 15, 9 if quick else 60, lo=18, hi=36, typed=True)]
    total = parallel(_chunk, items + hst + big, prop, prop=prop)
    total.exhaustive = False
    total.bounds[
        "TypedNode.get_children/first_child/last_child/has_children(kind), get_siblings/first_sibling/last_sibling/prev_sibling/next_sibling/"
        "get_index/is_first_sibling/is_last_sibling(any_kind), TypedTree.first_child/last_child/iter_by_type(kind)"
    ] = (
        f"all typed forests with <= {n_typed} nodes x labelings over {{a,b}} x kinds {{k1,k2}}"
        + ("" if quick else "; all typed forests with <= 3 nodes x {a,b,c} x kinds {k1,k2,k3}")
        + f"; one parent (tree or node) with 1..{flat_w} children, every kind pattern over {{{','.join(flat_kinds)}}}; the same with 1..3 children over the kinds arg / arg? / arg* / args / * (names that read as glob patterns of each other); "
        f"{n_rand} seeded random typed trees with 4..{max_rand} nodes and 3 kinds (VERIF_SEED={seed()}); every node and the system root, "
        f"{len(big)} seeded larger typed trees with 18..36 nodes; {len(hst)} " + "histories: every tree of <= {n} nodes with all accessors evaluated once, then one of remove / remove(keep_children) / move_to / add / remove_children / sort_children / deep copy (native/hist.py), the checks run on the resulting tree".format(n=n_hist) + "; "
        "every present kind + absent kinds (incl. super- and substrings of present kinds) + ANY_KIND, any_kind off/on/default, add_self off/on"
    )
    return total


def replay(witness: dict, prop: str) -> list[tuple[str, str]]:
    spec = spec_from_json(witness["spec"])
    tree, nodes = gen.build(spec)
    vs = check_tree(prop, tree, nodes, {"spec": witness["spec"]}, spec=spec)
    keys = ("node", "kind", "any_kind", "add_self")
    return [
        (v.clause, v.text)
        for v in vs
        if v.clause == witness.get("clause") and v.func == witness.get("func") and all(v.witness.get(k) == witness.get(k) for k in keys)
    ]
