"""Abstract view of a real nutree tree, the representation invariant `wf` evaluated natively,
and comparison helpers (DESIGN §4).  Everything here reads raw slots (`_children`,
`_parent`, ...) so that a broken public accessor cannot hide a broken structure; the
public accessors are checked *against* this view by C10/C15.
"""
from __future__ import annotations

from typing import Any


def kids(node) -> list:
    c = node._children
    return [] if c is None else list(c)


def reachable(tree, limit: int = 100000) -> list:
    """Nodes reachable from the top-level children, pre-order, identity based, guarded
    against cycles / shared nodes (each object reported once per occurrence up to limit)."""
    out = []
    stack = [iter(kids(tree._root))]
    while stack:
        try:
            n = next(stack[-1])
        except StopIteration:
            stack.pop()
            continue
        out.append(n)
        if len(out) > limit:
            raise RuntimeError("reachable(): structure is not finite (cycle)")
        stack.append(iter(kids(n)))
    return out


def wf_violations(tree, *, max_report: int = 6) -> list[str]:
    """Return the list of violated clauses of wf(T) (empty list == well-formed).
    Clause names follow DESIGN §4: S1..S6 (structure), I1/I2 (indexes), U (sibling ids)."""
    bad: list[str] = []
    root = tree._root
    if root._parent is not None:
        bad.append("S1: root has a parent")
    if root._tree is not tree:
        bad.append("S1: root._tree is not the tree")
    try:
        nodes = reachable(tree, limit=10 * (len(tree._node_by_id) + 10))
    except RuntimeError as e:
        return [f"S4: {e}"]
    seen: dict[int, Any] = {}
    for n in nodes:
        if id(n) in seen:
            bad.append(f"S3: node {n!r} reachable more than once")
        seen[id(n)] = n
    if id(root) in seen:
        bad.append("S1: root reachable as a child")
    for p in [root] + nodes:
        cl = p._children
        if cl is not None and not isinstance(cl, list):
            bad.append(f"S3: _children of {p!r} is {type(cl).__name__}")
            continue
        if p is not root and cl is not None and len(cl) == 0:
            bad.append(f"S6: non-root node {p!r} stores an empty child list")
        ids = []
        for i, c in enumerate(cl or ()):
            if c._parent is not p:
                bad.append(f"S3: child #{i} of {p!r} has _parent {c._parent!r}")
            if c._tree is not tree:
                bad.append(f"S2: {c!r} reports tree {c._tree!r}")
            ids.append(c._data_id)
        if len(set(ids)) != len(ids):
            bad.append(f"U: duplicate data_id among children of {p!r}: {ids}")
    # S4: acyclic -- follow parents with a visited set
    for n in nodes:
        p, hops, vis = n, 0, set()
        while p is not None and id(p) not in vis:
            vis.add(id(p))
            p = p._parent
            hops += 1
        if p is not None:
            bad.append(f"S4: {n!r} is its own ancestor")
            break
    # S5: list objects are not shared
    lists = {}
    for p in [root] + nodes:
        if p._children is not None:
            if id(p._children) in lists and lists[id(p._children)] is not p:
                bad.append(f"S5: {p!r} shares its child list object with {lists[id(p._children)]!r}")
            lists[id(p._children)] = p
    # I1: _node_by_id exact and injective
    nbi = tree._node_by_id
    if len(nbi) != len(seen):
        bad.append(f"I1: count {len(nbi)} != reachable {len(seen)}")
    for k, v in nbi.items():
        if id(v) not in seen:
            bad.append(f"I1: _node_by_id[{k!r}] = {v!r} is not reachable")
        elif v._node_id != k:
            bad.append(f"I1: _node_by_id[{k!r}] has node_id {v._node_id!r}")
    nids = [n._node_id for n in seen.values()]
    if len(set(nids)) != len(nids):
        bad.append("I1: node ids are not unique")
    for n in seen.values():
        if nbi.get(n._node_id) is not n:
            bad.append(f"I1: {n!r} not registered under its node_id")
    # I2: _nodes_by_data_id exact
    nbd = tree._nodes_by_data_id
    total = 0
    for did, lst in nbd.items():
        if not lst:
            bad.append(f"I2: empty clone list for {did!r}")
        if id(lst) in lists:
            bad.append(f"S5: clone list {did!r} is a child list")
        total += len(lst)
        if len({id(x) for x in lst}) != len(lst):
            bad.append(f"I2: duplicate entry in clone list {did!r}")
        for x in lst:
            if id(x) not in seen:
                bad.append(f"I2: clone list {did!r} holds unreachable {x!r}")
            elif x._data_id != did:
                bad.append(f"I2: clone list {did!r} holds node with id {x._data_id!r}")
    for n in seen.values():
        lst = nbd.get(n._data_id)
        if lst is None or not any(x is n for x in lst):
            bad.append(f"I2: {n!r} not listed under its data_id")
    if total != len(seen):
        bad.append(f"I2: clone lists hold {total} entries for {len(seen)} nodes")
    return bad[:max_report]


def obs(tree, *, max_depth: int = 60, max_nodes: int = 4000) -> tuple:
    """Observable state as a hashable/comparable value keyed by object identity:
    nested (id(node), id(data), data_id, kind, meta, children...) + index contents.
    Degenerate structures (cycles, runaway recursion results) yield a marker value."""
    budget = [max_nodes]

    class _Degenerate(Exception):
        pass

    def r(n, depth):
        budget[0] -= 1
        if depth > max_depth or budget[0] < 0:
            raise _Degenerate
        meta = n._meta
        m = None if meta is None else tuple(sorted((repr(k), repr(v)) for k, v in meta.items()))
        return (id(n), id(n._data), n._data_id, n._node_id, getattr(n, "_kind", None), m, tuple(r(c, depth + 1) for c in kids(n)))

    try:
        struct = tuple(r(c, 1) for c in kids(tree._root))
    except _Degenerate:
        struct = ("<<degenerate: deeper than %d or more than %d nodes>>" % (max_depth, max_nodes),)
    nbi = tuple(sorted(((repr(k), id(v)) for k, v in tree._node_by_id.items())))
    nbd = tuple(sorted(((repr(k), tuple(id(x) for x in v)) for k, v in tree._nodes_by_data_id.items())))
    return (struct, nbi, nbd, tree.count)


def shape(tree_or_node, *, with_ids=True, with_kind=True, with_meta=False) -> tuple:
    """Identity-free canonical form: nested (data-repr, data_id, kind, children)."""
    start = getattr(tree_or_node, "_root", tree_or_node)

    def r(n):
        t = [repr(n._data)]
        if with_ids:
            t.append(n._data_id)
        if with_kind:
            t.append(getattr(n, "_kind", None))
        if with_meta:
            t.append(None if not n._meta else tuple(sorted((repr(k), repr(v)) for k, v in n._meta.items())))
        t.append(tuple(r(c) for c in kids(n)))
        return tuple(t)

    return tuple(r(c) for c in kids(start))


def fmt(tree) -> str:
    """One-line rendering of the real tree (by raw slots), for witnesses."""

    budget = [400]

    def r(n):
        budget[0] -= 1
        if budget[0] < 0:
            return "..."
        s = f"{n._data!r}"
        try:
            if n._data_id != hash(n._data):
                s += f"#{n._data_id!r}"
        except TypeError:
            s += f"#{n._data_id!r}"
        k = getattr(n, "_kind", None)
        if k is not None:
            s += f":{k}"
        if n._meta:
            s += f"{n._meta!r}"
        c = kids(n)
        if c and budget[0] > 0:
            s += "[" + " ".join(r(x) for x in c) + "]"
        return s

    try:
        return " ".join(r(c) for c in kids(tree._root)) or "<empty>"
    except RecursionError:
        return "<<degenerate>>"
