"""Independent executable specification of nutree's mutating API (C04: "the observable tree
always equals the result of an independent executable specification applied to the same
history").  Written from the documentation / the property statements, NOT from the code:
positions follow the documented `before` rules, refusals follow C03/C13.

The model keeps, for every model node, the *actual* data object so that "same data object"
can be checked by identity against the real tree.
"""
from __future__ import annotations

from typing import Any, Callable, Optional


class Refused(Exception):
    """The specification says the operation must be refused.  `kinds` is the set of exception
    classes (by name) the property wording allows; the tree must be left unchanged."""

    def __init__(self, kinds, why=""):
        super().__init__(why)
        self.kinds = tuple(kinds)
        self.why = why


UNIQUE = ("UniqueConstraintError",)
AMBIG = ("AmbiguousMatchError",)
# "invalid position or target": the docs promise ValueError; the code sometimes asserts.  C13
# only demands *a* refusal that leaves the tree unchanged, so both are accepted as refusal kind.
INVALID = ("ValueError", "AssertionError")
UNSUPPORTED = ("NotImplementedError",)
DEFAULT_KIND = "child"


class MNode:
    __slots__ = ("uid", "data", "data_id", "kind", "meta", "children", "parent", "tree")

    def __init__(self, uid, data, data_id, kind=None, meta=None):
        self.uid = uid
        self.data = data
        self.data_id = data_id
        self.kind = kind
        self.meta = meta
        self.children: list[MNode] = []
        self.parent: Optional[MNode] = None
        self.tree: Optional[MTree] = None

    def __repr__(self):
        return f"M<{self.uid}:{self.data!r}>"


class MTree:
    def __init__(self, *, typed=False, calc: Callable[[Any], Any] = hash):
        self.typed = typed
        self.calc = calc
        self._uid = 0
        self.root = MNode(0, None, "__root__")
        self.root.tree = self

    # ------------------------------------------------------------- construction
    def new_uid(self):
        self._uid += 1
        return self._uid

    @classmethod
    def from_spec(cls, spec, datas, *, calc=hash):
        """spec: native.gen.Spec; datas[i]: the data object of record i.  uid of record i is i+1."""
        t = cls(typed=spec.typed, calc=calc)
        nodes = []
        for i, (p, _lab, did, kind) in enumerate(spec.nodes):
            d = datas[i]
            n = MNode(t.new_uid(), d, did if did is not None else calc(d), kind)
            n.tree = t
            par = t.root if p == -1 else nodes[p]
            n.parent = par
            par.children.append(n)
            nodes.append(n)
        return t, nodes

    # ------------------------------------------------------------- queries
    def members(self) -> list[MNode]:
        out = []

        def w(n):
            for c in n.children:
                out.append(c)
                w(c)

        w(self.root)
        return out

    def subtree(self, n: MNode) -> list[MNode]:
        out = [n]
        for c in n.children:
            out += self.subtree(c)
        return out

    def clones(self, data_id) -> list[MNode]:
        return [m for m in self.members() if m.data_id == data_id]

    def canon(self):
        def r(n):
            meta = None if not n.meta else tuple(sorted((repr(k), repr(v)) for k, v in n.meta.items()))
            return (n.uid, id(n.data), n.data_id, n.kind, meta, tuple(r(c) for c in n.children))

        return tuple(r(c) for c in self.root.children)

    # ------------------------------------------------------------- helpers
    @staticmethod
    def _position(parent: MNode, before) -> int:
        """Documented `before` rules (docstring of Node.add_child)."""
        n = len(parent.children)
        if before is None or before is False:
            return n
        if before is True:
            return 0
        if isinstance(before, int):
            if before < 0:
                raise Refused(INVALID + ("IndexError",), "negative index (not documented-valid)")
            return min(before, n)  # an index behind the last child appends, as list.insert() does
        if isinstance(before, MNode):
            if before.parent is not parent:
                raise Refused(INVALID, "`before` node is not a child of the target")
            return parent.children.index(before)
        raise Refused(INVALID + ("TypeError", "AttributeError"), "unsupported `before`")

    @staticmethod
    def _check_unique(parent: MNode, data_id, *, ignore=()):
        for c in parent.children:
            if c.data_id == data_id and all(c is not x for x in ignore):
                raise Refused(UNIQUE, f"data_id {data_id!r} already below {parent!r}")

    # ------------------------------------------------------------- add
    def add_data(self, parent: MNode, data, *, before=None, data_id=None, kind=None) -> MNode:
        did = data_id if data_id is not None else self.calc(data)
        _, pos = all_reasons(lambda: self._check_unique(parent, did), lambda: self._position(parent, before))
        if self.typed and kind is None:
            kind = DEFAULT_KIND
        n = MNode(self.new_uid(), data, did, kind if self.typed else None)
        n.tree = self
        n.parent = parent
        parent.children.insert(pos, n)
        return n

    def _copy_branch_into(self, new: MNode, src: MNode):
        for c in src.children:
            self._check_unique(new, c.data_id)
            m = MNode(self.new_uid(), c.data, c.data_id, c.kind if self.typed else None)
            m.tree = self
            m.parent = new
            new.children.append(m)
            self._copy_branch_into(m, c)

    def add_node(self, parent: MNode, src: MNode, *, before=None, deep=None, data_id=None, node_id=None, kind=None) -> MNode:
        """Copy of an existing node (same or other tree).  C07: same data object, same
        data_id, same kind; `deep` copies the descendants in order."""
        if deep is None:
            deep = False

        def c1():
            if deep and (data_id is not None or node_id is not None):
                raise Refused(INVALID, "ids cannot be set for deep copies")

        def c2():
            if data_id is not None and data_id != src.data_id:
                raise Refused(UNIQUE, "data_id conflict")

        def c3():
            if deep and any(parent is x for x in self.subtree(src)) and src.tree is self:
                raise Refused(INVALID + UNIQUE, "deep copy of a branch into itself")

        *_, pos = all_reasons(c1, c2, c3, lambda: self._check_unique(parent, src.data_id), lambda: self._position(parent, before))
        if self.typed:
            k = kind if kind is not None else src.kind
        else:
            k = None
        n = MNode(self.new_uid(), src.data, src.data_id, k)
        n.tree = self
        n.parent = parent
        # validate the whole deep copy before touching anything (refusal must not corrupt)
        if deep:
            frozen = _freeze(src)
            _check_branch_unique(frozen)
        parent.children.insert(pos, n)
        if deep:
            self._copy_frozen_into(n, frozen)
        return n

    def _copy_frozen_into(self, new: MNode, frozen):
        for (data, did, kind, sub) in frozen[3]:
            m = MNode(self.new_uid(), data, did, kind if self.typed else None)
            m.tree = self
            m.parent = new
            new.children.append(m)
            self._copy_frozen_into(m, (data, did, kind, sub))

    def add_tree(self, parent: MNode, src_tree: "MTree", *, before=None, deep=None) -> list[MNode]:
        if deep is None:
            deep = True
        tops = list(src_tree.root.children)
        ids = [t.data_id for t in tops]

        def cu():
            for d in ids:
                self._check_unique(parent, d)

        _, pos = all_reasons(cu, lambda: self._position(parent, before))
        out = []
        frozen = [_freeze(t) for t in tops]
        for off, (t, fz) in enumerate(zip(tops, frozen)):
            n = MNode(self.new_uid(), t.data, t.data_id, t.kind if self.typed else None)
            n.tree = self
            n.parent = parent
            parent.children.insert(pos + off, n)
            if deep:
                self._copy_frozen_into(n, fz)
            out.append(n)
        return out

    # ------------------------------------------------------------- move
    def move_to(self, node: MNode, new_parent: MNode, *, before=None):
        if new_parent.tree is not node.tree:
            raise Refused(UNSUPPORTED, "cross-tree move")

        def c1():
            if any(new_parent is x for x in self.subtree(node)):
                raise Refused(INVALID + UNIQUE + ("TreeError", "RuntimeError"), "move below itself")

        def c3():
            if isinstance(before, MNode):
                if before.parent is not new_parent:
                    raise Refused(INVALID, "`before` is not a child of the new parent")

        all_reasons(c1, lambda: self._check_unique(new_parent, node.data_id, ignore=(node,)), c3)
        old = node.parent
        rest = [c for c in new_parent.children if c is not node]
        if before is None or before is False:
            pos = len(rest)
        elif before is True:
            pos = 0
        elif isinstance(before, int):
            if before < 0:
                raise Refused(INVALID + ("IndexError",), "negative index")
            pos = min(before, len(rest))  # an index behind the last child appends, as list.insert() does
        else:
            if before is node:
                pos = new_parent.children.index(node)  # stays where it is
            else:
                pos = next(i for i, c in enumerate(rest) if c is before)
        old.children[:] = [c for c in old.children if c is not node]
        new_parent.children.insert(pos, node)
        node.parent = new_parent

    # ------------------------------------------------------------- remove
    def _detach(self, node: MNode):
        p = node.parent
        p.children[:] = [c for c in p.children if c is not node]
        node.parent = None

    def remove(self, node: MNode, *, keep_children=False, with_clones=False):
        targets = [node]
        if with_clones:
            targets = [m for m in self.clones(node.data_id) if m is not node] + [node]
        # validate first (C13): un-nesting must not create duplicate sibling ids
        if keep_children:
            sim = _simulate_keep(self, targets)
            if sim is not None:
                raise Refused(UNIQUE, sim)
        for t in targets:
            if not self._is_member(t):
                continue  # already gone with an enclosing clone
            if keep_children:
                p = t.parent
                i = next(k for k, c in enumerate(p.children) if c is t)
                kids = list(t.children)
                for c in kids:
                    c.parent = p
                p.children[i : i + 1] = kids
                t.children = []
                t.parent = None
            else:
                self._detach(t)

    def _is_member(self, n: MNode) -> bool:
        p = n
        hops = 0
        while p is not None and p is not self.root:
            if p.parent is None or all(c is not p for c in p.parent.children):
                return False
            p = p.parent
            hops += 1
        return p is self.root

    def remove_children(self, node: MNode):
        for c in node.children:
            c.parent = None
        node.children = []

    def clear(self):
        self.remove_children(self.root)

    # ------------------------------------------------------------- sort
    def sort_children(self, node: MNode, *, key=None, reverse=False, deep=False):
        if key is None:
            key = lambda m: f"{m.data}"  # noqa: E731  documented default: name
        node.children.sort(key=key, reverse=reverse)
        if deep:
            for c in node.children:
                self.sort_children(c, key=key, reverse=reverse, deep=True)

    # ------------------------------------------------------------- data
    def set_data(self, node: MNode, data, *, data_id=None, with_clones=None):
        if not data and not data_id:
            raise Refused(INVALID, "missing data or data_id")
        new_data = None if (data is None or data is node.data) else data
        change_data = new_data is not None
        if change_data and data_id is None:
            data_id = self.calc(data)
        change_id = data_id is not None and data_id != node.data_id
        group = self.clones(node.data_id)
        if len(group) > 1 and with_clones is None:
            raise Refused(AMBIG, "clones need with_clones")
        targets = group if (with_clones and len(group) > 1) else [node]
        if change_id:
            for t in targets:
                self._check_unique(t.parent, data_id, ignore=targets)
        for t in targets:
            if change_id:
                t.data_id = data_id
            if change_data and (change_id or with_clones or t is node):
                t.data = new_data

    def rename(self, node: MNode, new_name):
        if not isinstance(node.data, str):
            raise Refused(INVALID, "rename needs a plain string node")
        return self.set_data(node, new_name)

    # ------------------------------------------------------------- meta
    @staticmethod
    def set_meta(node: MNode, key, value):
        if value is None:
            return MTree.clear_meta(node, key)
        if node.meta is None:
            node.meta = {}
        node.meta[key] = value

    @staticmethod
    def clear_meta(node: MNode, key=None):
        if key is None:
            node.meta = None
            return
        if node.meta is not None:
            node.meta.pop(key, None)
            if not node.meta:
                node.meta = None

    @staticmethod
    def update_meta(node: MNode, values: dict, *, replace=False):
        m = {} if (replace or node.meta is None) else dict(node.meta)
        m.update(values)
        node.meta = m or None


def all_reasons(*checks):
    """Run every validation; if several refuse, any of their error kinds is acceptable."""
    kinds, whys, results = [], [], []
    for c in checks:
        try:
            results.append(c())
        except Refused as r:
            kinds += [k for k in r.kinds if k not in kinds]
            whys.append(r.why)
            results.append(None)
    if kinds:
        raise Refused(kinds, "; ".join(whys))
    return results


def _freeze(src: MNode):
    return (src.data, src.data_id, src.kind, tuple(_freeze(c) for c in src.children))


def _check_branch_unique(frozen):
    ids = [c[1] for c in frozen[3]]
    if len(set(ids)) != len(ids):
        raise Refused(UNIQUE, "duplicate ids inside the copied branch")
    for c in frozen[3]:
        _check_branch_unique(c)


def _simulate_keep(tree: MTree, targets) -> Optional[str]:
    """Would splicing the children of every target create two siblings with one id?"""
    tset = {id(t) for t in targets}

    def eff_children(p: MNode):
        out = []
        for c in p.children:
            if id(c) in tset:
                out += eff_children(c)
            else:
                out.append(c)
        return out

    parents = [tree.root] + [m for m in tree.members() if id(m) not in tset]
    for p in parents:
        ids = [c.data_id for c in eff_children(p)]
        if len(set(ids)) != len(ids):
            return f"splicing would duplicate an id below {p!r}: {ids}"
    return None
