"""Shared machinery of the native (bounded) tier: parallel sweeps, violation records,
known-finding matching, result files.  Runs under /venv/bin/python.
"""
from __future__ import annotations

import hashlib
import json
import multiprocessing as mp
import os
import sys
import time
import traceback
from dataclasses import dataclass, field, asdict
from typing import Any, Callable, Iterable, Sequence

VERIF = os.path.dirname(os.path.dirname(os.path.abspath(__file__)))
NPROC = int(os.environ.get("VERIF_NPROC", "0")) or min(16, os.cpu_count() or 1)


def seed() -> int:
    try:
        return int(os.environ.get("VERIF_SEED", "0"))
    except ValueError:
        return 0


def clip(s: str, n: int = 400) -> str:
    s = str(s)
    return s if len(s) <= n else s[: n - 20] + f"...<+{len(s) - n + 20} chars>"


@dataclass
class Violation:
    prop: str  # property id
    clause: str  # contract clause that failed, e.g. "Node.move_to/ensures wf.S3"
    func: str  # function under contract
    witness: dict  # replayable input: {"spec": ..., "op": ..., ...}
    text: str  # observed vs required

    def key(self) -> str:
        return f"{self.prop}|{self.func}|{self.clause}"


@dataclass
class Result:
    prop: str
    evaluations: int = 0
    nontrivial: set = field(default_factory=set)  # hashes of distinct non-trivial cases
    violations: list = field(default_factory=list)
    samples: list = field(default_factory=list)
    bounds: dict = field(default_factory=dict)  # function -> stated bound
    notes: list = field(default_factory=list)
    errors: list = field(default_factory=list)  # checker errors (tracebacks)
    wall_s: float = 0.0
    exhaustive: bool = True

    def merge(self, other: "Result"):
        self.evaluations += other.evaluations
        self.nontrivial |= other.nontrivial
        self.violations += other.violations
        for s in other.samples:
            if len(self.samples) < 8:
                self.samples.append(s)
        self.bounds.update(other.bounds)
        self.notes += other.notes
        self.errors += other.errors
        self.exhaustive = self.exhaustive and other.exhaustive

    def add_case(self, case_repr: str, nontrivial: bool = True):
        self.evaluations += 1
        if nontrivial:
            self.nontrivial.add(hashlib.blake2b(case_repr.encode("utf-8", "surrogatepass"), digest_size=8).digest())
        if len(self.samples) < 3:
            self.samples.append(clip(case_repr, 300))

    def to_json(self) -> dict:
        return {
            "prop": self.prop,
            "evaluations": self.evaluations,
            "distinct_nontrivial": len(self.nontrivial),
            "violations": [asdict(v) for v in self.violations],
            "samples": self.samples,
            "bounds": self.bounds,
            "notes": self.notes,
            "errors": self.errors,
            "wall_s": round(self.wall_s, 2),
            "exhaustive": self.exhaustive,
        }


def _worker(args):
    fn, chunk, extra = args
    try:
        return fn(chunk, *extra)
    except Exception:  # noqa: BLE001  -- a crash in the checker is a checker error, never a violation
        r = Result("?")
        r.errors.append(traceback.format_exc()[-1500:])
        return r


def parallel(fn: Callable, items: Sequence, *extra, prop: str, chunks_per_proc: int = 4) -> Result:
    """Run fn(chunk, *extra) -> Result over `items` split into chunks on NPROC processes."""
    items = list(items)
    total = Result(prop)
    if not items:
        return total
    nchunks = max(1, min(len(items), NPROC * chunks_per_proc))
    chunks = [items[i::nchunks] for i in range(nchunks)]
    if NPROC <= 1 or len(items) < 8:
        for c in chunks:
            total.merge(_worker((fn, c, extra)))
        return total
    ctx = mp.get_context("fork")
    with ctx.Pool(NPROC) as pool:
        for r in pool.imap_unordered(_worker, [(fn, c, extra) for c in chunks]):
            total.merge(r)
    return total


def dedup(violations: list, per_key: int = 3) -> list:
    """Keep at most `per_key` witnesses per (prop, func, clause), smallest witnesses first."""
    by: dict[str, list] = {}
    for v in violations:
        by.setdefault(v.key(), []).append(v)
    out = []
    for k in sorted(by):
        vs = sorted(by[k], key=lambda v: (len(json.dumps(v.witness, default=str)), json.dumps(v.witness, default=str)))
        out += vs[:per_key]
    return out
