"""Entry point of the native tier:  /venv/bin/python -m native.run <PROP> --tier quick --out FILE
                                 /venv/bin/python -m native.run --replay FILE
Exit code is always 0 unless the runner itself crashed; verdicts travel in the JSON file.
"""
from __future__ import annotations

import argparse
import importlib
import json
import sys
import time
import traceback

from .harness import Result, dedup

MODULES = {
    "C01": "native.props.c_mut", "C02": "native.props.c02", "C03": "native.props.c_mut", "C04": "native.props.c_mut",
    "C05": "native.props.c05", "C06": "native.props.c06", "C07": "native.props.c07", "C08": "native.props.c08",
    "C09": "native.props.c09", "C10": "native.props.c10", "C11": "native.props.c11", "C12": "native.props.c12",
    "C13": "native.props.c13", "C14": "native.props.c14", "C15": "native.props.c15", "C16": "native.props.c16",
    "C17": "native.props.c17", "C18": "native.props.c18", "C19": "native.props.c19", "C20": "native.props.c20",
}


def main(argv=None):
    ap = argparse.ArgumentParser()
    ap.add_argument("prop", nargs="?")
    ap.add_argument("--tier", default="quick")
    ap.add_argument("--out")
    ap.add_argument("--replay")
    ap.add_argument("--only", help="restrict to one function/clause group (used by the refuter)")
    a = ap.parse_args(argv)
    t0 = time.time()
    if a.replay:
        w = json.load(open(a.replay))
        mod = importlib.import_module(w["module"])
        try:
            if w["witness"].get("part") == "cbunit":
                from .props import cbunit
                diffs = cbunit.replay(w["witness"])
            else:
                diffs = mod.replay(w["witness"], w["property"])
        except Exception:  # noqa: BLE001
            print("REPLAY-ERROR", traceback.format_exc()[-1500:])
            return 3
        if diffs:
            for c, t in diffs:
                print(f"REPLAY-VIOLATED property={w['property']} clause={c}: {t}")
            return 1
        print(f"REPLAY-HOLDS property={w['property']}: the stored input no longer violates the clause")
        return 0
    try:
        mod = importlib.import_module(MODULES[a.prop])
        res: Result = mod.run(a.prop, a.tier, only=a.only) if a.only else mod.run(a.prop, a.tier)
        from .props import cbunit
        cbunit.run_into(res, a.prop)  # run-time contract check of the callback adapters this property depends on
    except Exception:  # noqa: BLE001
        res = Result(a.prop)
        res.errors.append(traceback.format_exc()[-3000:])
    res.violations = dedup(res.violations)
    res.wall_s = time.time() - t0
    js = res.to_json()
    js["module"] = MODULES[a.prop]
    if a.out:
        json.dump(js, open(a.out, "w"), indent=1, default=str)
    else:
        json.dump(js, sys.stdout, indent=1, default=str)
    return 0


if __name__ == "__main__":
    sys.exit(main())
