"""Histories for the bounded oracles: *warm* every read-only query of a real tree (so that whatever an
implementation may memoise has been computed once), apply one structural change through the public
API, and let the property's oracle judge the changed tree.  A result cached before the change must
not survive it.  Mutations are JSON lists so that a witness replays."""
from __future__ import annotations

import itertools


def _drain(it, cap=10000):
    return list(itertools.islice(it, cap))


def warm(tree, nodes=None):
    """Call every parameterless read-only accessor of the tree and of each node once; errors are the
    business of the properties about those accessors, not of the history."""
    from . import view

    if nodes is None:
        nodes = view.reachable(tree)
    calls = [
        lambda: len(tree), lambda: tree.count, lambda: tree.count_unique, lambda: tree.calc_height(), lambda: tree.first_child(), lambda: tree.last_child(),
        lambda: tree.format(), lambda: tree.format(style="list"), lambda: _drain(iter(tree)), lambda: tree.to_dict_list(), lambda: tree.children,
        lambda: tree.find_all(match=".*"), lambda: tree.find_first(match=".*"), lambda: bool(tree), lambda: repr(tree),
    ]
    for n in nodes:
        calls += [
            lambda n=n: n.depth(), lambda n=n: n.calc_depth(), lambda n=n: n.calc_height(), lambda n=n: n.count_descendants(), lambda n=n: n.count_descendants(leaves_only=True),
            lambda n=n: n.get_parent_list(), lambda n=n: n.get_parent_list(add_self=True), lambda n=n: n.get_top(), lambda n=n: n.get_index(), lambda n=n: n.path,
            lambda n=n: n.get_path(), lambda n=n: n.get_siblings(), lambda n=n: n.get_siblings(add_self=True), lambda n=n: n.get_clones(), lambda n=n: n.get_clones(add_self=True),
            lambda n=n: n.is_clone(), lambda n=n: n.is_first_sibling(), lambda n=n: n.is_last_sibling(), lambda n=n: n.is_leaf(), lambda n=n: n.is_top(), lambda n=n: n.has_children(),
            lambda n=n: n.first_child(), lambda n=n: n.last_child(), lambda n=n: n.first_sibling(), lambda n=n: n.last_sibling(), lambda n=n: n.prev_sibling(), lambda n=n: n.next_sibling(),
            lambda n=n: n.format(), lambda n=n: n.format(add_self=False), lambda n=n: _drain(n.iterator(add_self=True)), lambda n=n: _drain(iter(n)), lambda n=n: n.to_dict(),
            lambda n=n: n.find_all(match=".*", add_self=True), lambda n=n: n.find_first(match=".*"), lambda n=n: (n.name, repr(n), str(n), n.children, n.parent, n.data_id, n.node_id),
            lambda n=n: tree[n.data], lambda n=n: n.data in tree, lambda n=n: tree.find_all(data_id=n.data_id), lambda n=n: tree.find_first(data_id=n.data_id),
        ]
    for c in calls:
        try:
            c()
        except Exception:  # noqa: BLE001
            pass


def mutations(spec, *, labels=("q",)):
    """One structural change each; positions are record indices of `spec` (-1: the tree)."""
    n = len(spec.nodes)
    out = []
    for i in range(n):
        out.append(["remove", i, False])
        out.append(["remove", i, True])
        for j in [-1] + list(range(n)):
            if j != i:
                out.append(["move", i, j, None])
                out.append(["move", i, j, True])
        for lab in labels:
            out.append(["add", i, lab, None])
            out.append(["add", i, lab, True])
        out.append(["setid", i])  # the same data under a new explicit id
        out.append(["remove_children", i])
        out.append(["sort", i])
        for j in range(n):
            if j != i:
                out.append(["copy", i, j])
    return out


def apply(tree, nodes, mut, mk, typed=False) -> bool:
    """Apply `mut`; False if the library refused it (refusals are the business of C03/C13)."""
    try:
        k = mut[0]
        if k == "remove":
            nodes[mut[1]].remove(keep_children=mut[2])
        elif k == "move":
            kw = {} if mut[3] is None else {"before": mut[3]}
            nodes[mut[1]].move_to(tree if mut[2] == -1 else nodes[mut[2]], **kw)
        elif k == "add":
            kw = {} if mut[3] is None else {"before": mut[3]}
            if typed:
                kw["kind"] = "k1"
            nodes[mut[1]].add(mk(mut[2]), **kw)
        elif k == "setid":
            nodes[mut[1]].set_data(nodes[mut[1]]._data, data_id="hid", with_clones=False)
        elif k == "rename_keep_id":
            nodes[mut[1]].set_data(mk("q"), data_id=nodes[mut[1]]._data_id, with_clones=False)
        elif k == "remove_children":
            nodes[mut[1]].remove_children()
        elif k == "sort":
            nodes[mut[1]].sort_children(key=lambda n: str(n._data), reverse=True)
        elif k == "copy":
            nodes[mut[2]].add(nodes[mut[1]], deep=True)
        else:
            raise ValueError(k)
    except Exception:  # noqa: BLE001
        return False
    return True
