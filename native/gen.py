"""Enumeration of small pre-states for the bounded stand-in (DESIGN §3.7, Appendix C).

A *spec* is a tuple of node records in pre-order:  (parent_index, label, data_id, kind)
parent_index == -1 means "top-level node".  `build()` turns a spec into a real nutree tree
through the public API only and returns the nodes in spec order.

Runs under /venv/bin/python (the interpreter the repository's own tests use).
"""
from __future__ import annotations

import itertools
import random
from dataclasses import dataclass
from functools import lru_cache
from typing import Any, Callable, Iterator, Sequence

ALPHABET = ("a", "b", "c")
KINDS = ("k1", "k2")


# ---------------------------------------------------------------- shapes
@lru_cache(maxsize=None)
def forests(n: int) -> tuple[tuple[int, ...], ...]:
    """All ordered forests with n nodes as pre-order parent vectors (Catalan(n) many)."""
    if n == 0:
        return ((),)
    out = []

    def rec(pv: list[int]):
        i = len(pv)
        if i == n:
            out.append(tuple(pv))
            return
        # candidates: -1 and every node on the path from node i-1 up to its top ancestor
        cands = [-1]
        if i > 0:
            p = i - 1
            chain = []
            while p != -1:
                chain.append(p)
                p = pv[p]
            cands += chain
        for c in cands:
            pv.append(c)
            rec(pv)
            pv.pop()

    rec([])
    return tuple(out)


def children_of(pv: Sequence[int]) -> dict[int, list[int]]:
    ch: dict[int, list[int]] = {-1: []}
    for i, p in enumerate(pv):
        ch.setdefault(i, [])
        ch.setdefault(p, []).append(i)
    return ch


def labelings(pv: Sequence[int], alphabet: Sequence[str] = ALPHABET) -> Iterator[tuple[str, ...]]:
    """All labelings in which siblings carry pairwise different labels.  A label used under
    two different parents makes a clone pair (same data object, same data_id)."""
    n = len(pv)
    labels: list[str] = []

    def rec(i: int):
        if i == n:
            yield tuple(labels)
            return
        used = {labels[j] for j in range(i) if pv[j] == pv[i]}
        for a in alphabet:
            if a in used:
                continue
            labels.append(a)
            yield from rec(i + 1)
            labels.pop()

    yield from rec(0)


@dataclass(frozen=True)
class Spec:
    """Pre-order description of a tree.  nodes[i] = (parent, label, data_id|None, kind|None)."""

    nodes: tuple[tuple[int, str, Any, Any], ...]
    typed: bool = False
    flavour: str = "str"
    #: (nodes of a base spec, one mutation of native/hist.py): `nodes` is then the tree that results when the base tree
    #: is built, every accessor is evaluated once and the mutation is applied -- build() replays exactly that history
    hist: Any = None

    def __len__(self):
        return len(self.nodes)

    def key(self):
        return (self.nodes, self.typed, self.flavour, self.hist)

    def short(self) -> str:
        """Compact one-line rendering  a[b c[a]] d   (data_id as label#id, kind as label:kind)."""
        ch = children_of([n[0] for n in self.nodes])

        def r(i):
            _, lab, did, kind = self.nodes[i]
            s = lab
            if did is not None:
                s += f"#{did}"
            if kind is not None:
                s += f":{kind}"
            if ch[i]:
                s += "[" + " ".join(r(c) for c in ch[i]) + "]"
            return s

        out = " ".join(r(c) for c in ch[-1]) or "<empty>"
        if self.hist is not None:
            out += f" <reached by {list(self.hist[1])} on the warmed tree {Spec(self.hist[0], self.typed).short()}>"
        return out


def plain_specs(max_n: int, *, min_n: int = 0, alphabet=ALPHABET) -> Iterator[Spec]:
    for n in range(min_n, max_n + 1):
        for pv in forests(n):
            for labs in labelings(pv, alphabet):
                yield Spec(tuple((pv[i], labs[i], None, None) for i in range(n)))


def eqpair_specs(max_n: int, *, min_n: int = 2, alphabet=("a", "b")) -> Iterator[Spec]:
    """Variant (ii): one pair of nodes holds *equal* data ('x') under distinct explicit ids
    (1 and 2).  The pair may be siblings: that is the 'equal-comparing siblings' case of
    C01/C10.  The remaining nodes are labelled from a 2-letter alphabet."""
    for n in range(min_n, max_n + 1):
        for pv in forests(n):
            for i, j in itertools.combinations(range(n), 2):
                rest = [k for k in range(n) if k not in (i, j)]
                for labs in itertools.product(alphabet, repeat=len(rest)):
                    lab = {k: l for k, l in zip(rest, labs)}
                    nodes = []
                    for k in range(n):
                        if k == i:
                            nodes.append((pv[k], "x", 1, None))
                        elif k == j:
                            nodes.append((pv[k], "x", 2, None))
                        else:
                            nodes.append((pv[k], lab[k], None, None))
                    sp = Spec(tuple(nodes))
                    if sibling_ids_unique(sp):
                        yield sp


def typed_specs(max_n: int, *, min_n: int = 0, alphabet=("a", "b"), kinds=KINDS) -> Iterator[Spec]:
    """Variant (v): typed trees, every node gets a kind from `kinds`."""
    for n in range(min_n, max_n + 1):
        for pv in forests(n):
            for labs in labelings(pv, alphabet):
                for ks in itertools.product(kinds, repeat=n):
                    yield Spec(tuple((pv[i], labs[i], None, ks[i]) for i in range(n)), typed=True)


def explicit_id_specs(max_n: int, *, min_n: int = 1, alphabet=("a", "b")) -> Iterator[Spec]:
    """Variant (iii): one node carries an explicit data_id that differs from the default."""
    for n in range(min_n, max_n + 1):
        for pv in forests(n):
            for labs in labelings(pv, alphabet):
                for i in range(n):
                    nodes = [(pv[k], labs[k], ("id7" if k == i else None), None) for k in range(n)]
                    sp = Spec(tuple(nodes))
                    if sibling_ids_unique(sp):
                        yield sp


def shared_id_specs(max_n: int, *, min_n: int = 2, labels=("a", "b")) -> Iterator[Spec]:
    """Two nodes with *different* data (labels a and b) filed under one explicit data_id 'sid' (never
    siblings): data_id is a key, not the name.  The remaining nodes are labelled c."""
    for n in range(min_n, max_n + 1):
        for pv in forests(n):
            for i, j in itertools.combinations(range(n), 2):
                if pv[i] == pv[j]:
                    continue
                for la, lb in ((labels[0], labels[1]), (labels[1], labels[0])):
                    nodes = []
                    for k in range(n):
                        if k == i:
                            nodes.append((pv[k], la, "sid", None))
                        elif k == j:
                            nodes.append((pv[k], lb, "sid", None))
                        else:
                            nodes.append((pv[k], "c", None, None))
                    sp = Spec(tuple(nodes))
                    if sibling_ids_unique(sp):
                        yield sp


def effective_id(rec) -> Any:
    _, lab, did, _ = rec
    return ("L", lab) if did is None else ("I", did)


def sibling_ids_unique(sp: Spec) -> bool:
    seen = set()
    for p, lab, did, _k in sp.nodes:
        key = (p, effective_id((p, lab, did, _k)))
        if key in seen:
            return False
        seen.add(key)
    return True


def random_spec(rng: random.Random, n: int, *, alphabet=ALPHABET, typed=False, kinds=KINDS) -> Spec:
    pv: list[int] = []
    for i in range(n):
        cands = [-1]
        if i > 0:
            p = i - 1
            while p != -1:
                cands.append(p)
                p = pv[p]
        pv.append(rng.choice(cands))
    labs: list[str] = []
    for i in range(n):
        used = {labs[j] for j in range(i) if pv[j] == pv[i]}
        free = [a for a in alphabet if a not in used]
        if not free:  # widen alphabet deterministically
            free = [f"z{i}"]
        labs.append(rng.choice(free))
    return Spec(tuple((pv[i], labs[i], None, (rng.choice(kinds) if typed else None)) for i in range(n)), typed=typed)


def big_spec(rng: random.Random, n: int, shape: str = "wide", *, typed=False, kinds=KINDS, clone_rate=0.15) -> Spec:
    """A larger tree (tens of nodes) for code paths that depend on size: shape 'wide' makes long sibling
    runs (a node mostly becomes the next sibling of its predecessor), 'deep' long chains (mostly the child
    of its predecessor), 'mixed' picks uniformly on the rightmost path.  Labels n<i> are distinct except
    for a share `clone_rate` that repeats an earlier label where the sibling rule allows it."""
    pv: list[int] = []
    for i in range(n):
        path = [-1]
        if i > 0:
            p = i - 1
            while p != -1:
                path.append(p)  # predecessor, its parent, ... (deepest first after -1)
                p = pv[p]
        r = rng.random()
        if i == 0:
            pv.append(-1)
        elif shape == "wide" and r < 0.8:
            pv.append(pv[i - 1])
        elif shape == "deep" and r < 0.8:
            pv.append(i - 1)
        else:
            pv.append(rng.choice(path))
    labs: list[str] = []
    for i in range(n):
        lab = f"n{i}"
        if i and rng.random() < clone_rate:
            cand = rng.choice(labs)
            if all(labs[j] != cand for j in range(i) if pv[j] == pv[i]):
                lab = cand
        labs.append(lab)
    return Spec(tuple((pv[i], labs[i], None, (rng.choice(kinds) if typed else None)) for i in range(n)), typed=typed)


def big_specs(seed_: int, count: int, *, lo=18, hi=60, typed=False) -> list:
    """`count` seeded larger trees, shapes in rotation."""
    out = []
    for j in range(count):
        rng = random.Random(seed_ * 7919 + j)
        out.append(big_spec(rng, rng.randint(lo, hi), ("wide", "deep", "mixed")[j % 3], typed=typed))
    return out


def _jsonable(x):
    return tuple(_jsonable(y) for y in x) if isinstance(x, (list, tuple)) else x


def history_specs(bases, *, labels=("q",), sample=None) -> list:
    """For every base spec and every single change of hist.mutations(): the Spec of the tree that results on the code
    under test (spec_of), carrying the history that produced it.  Refused changes and results that are not
    well-formed are skipped (they are the business of C01..C04/C13)."""
    from . import hist, view

    out, seen = [], set()
    for base in bases:
        if base.flavour != "str" or base.hist is not None:
            continue
        muts = hist.mutations(base, labels=labels)
        if sample is not None:  # (rng, k): k sampled changes per base
            muts = sample[0].sample(muts, min(sample[1], len(muts)))
        for mut in muts:
            try:
                tree, nodes = build(base)
                hist.warm(tree, nodes)
                if not hist.apply(tree, nodes, mut, make_data_factory(base.flavour), typed=base.typed) or view.wf_violations(tree):
                    continue
                sp = Spec(spec_of(tree).nodes, typed=base.typed, flavour=base.flavour, hist=(base.nodes, _jsonable(mut)))
            except Exception:  # noqa: BLE001
                continue
            if sp.key() not in seen:
                seen.add(sp.key())
                out.append(sp)
    return out


# ---------------------------------------------------------------- data flavours (C02)
@dataclass(frozen=True)
class Item:  # frozen dataclass flavour: hashable, equality by value
    name: str


class Keyed:
    """Object flavour for trees with a calc_data_id callback: unhashable-by-value,
    keyed by `.key`."""

    __slots__ = ("key", "payload")

    def __init__(self, key, payload=None):
        self.key = key
        self.payload = payload

    def __repr__(self):
        return f"Keyed<{self.key}>"


def keyed_calc_id(tree, data):
    return data.key if isinstance(data, Keyed) else hash(data)


FLAVOURS = ("str", "int", "tuple", "dataclass", "dictwrapper", "keyed")


def make_data_factory(flavour: str) -> Callable[[str], Any]:
    """label -> data object; the same label always yields the *same* object (clones)."""
    cache: dict[str, Any] = {}

    def f(label: str):
        if label in cache:
            return cache[label]
        if flavour == "str":
            d = label
        elif flavour == "int":
            d = 1000 + sum(ord(c) * (i + 1) for i, c in enumerate(label))
        elif flavour == "tuple":
            d = (label, len(label))
        elif flavour == "dataclass":
            d = Item(label)
        elif flavour == "dictwrapper":
            from nutree.common import DictWrapper

            if label in ("b", "x"):
                # a record wrapped while still empty and filled in afterwards: the wrapper refers to *that* dict
                # (identity), whatever its truth value at wrapping time
                rec: dict = {}
                d = DictWrapper(rec)
                rec["name"] = label
            else:
                d = DictWrapper({"name": label})
        elif flavour in ("keyed", "keyedsub"):
            d = Keyed("key_" + label)
        else:
            raise ValueError(flavour)
        cache[label] = d
        return d

    return f


# ---------------------------------------------------------------- building real trees
def build(spec: Spec, *, name: str = "T", flavour: str | None = None, tree_cls=None, mk=None, order: str = "pre", node_ids: str | None = None):
    """Build the real tree for `spec` through the public API.  Returns (tree, nodes) with
    nodes[i] the real node of record i.  For flavour 'eq' style specs (label 'x' with
    explicit ids) data objects are equal strings.
    order='rev': the same tree, but every sibling group is created last-to-first (each node is
    prepended), level by level -- the creation / registration order then differs from the
    pre-order, as it does after moves and insertions.
    node_ids='even': the records at even positions get a caller-supplied node_id (7000 + position) -- a documented option;
    the others keep the default id(node)."""
    from nutree import Tree
    from nutree.typed_tree import TypedTree

    flavour = flavour or spec.flavour
    if spec.hist is not None:
        from . import hist, view

        base = Spec(spec.hist[0], typed=spec.typed, flavour=spec.flavour)
        tree, nodes = build(base, name=name, flavour=flavour, tree_cls=tree_cls, mk=mk, order=order, node_ids=node_ids)
        hist.warm(tree, nodes)
        if not hist.apply(tree, nodes, list(spec.hist[1]), mk or make_data_factory(flavour), typed=spec.typed):
            raise RuntimeError(f"history refused: {spec.short()}")
        if spec_of(tree).nodes != spec.nodes:
            raise RuntimeError(f"history leads to {spec_of(tree).short()}, not to {spec.short()}")
        return tree, view.reachable(tree)
    if tree_cls is None:
        tree_cls = TypedTree if spec.typed else Tree
    kw = {}
    if flavour == "keyed":
        kw["calc_data_id"] = keyed_calc_id
    elif flavour == "keyedsub":
        # the other documented way to customise ids: a Tree subclass that *overrides* calc_data_id() (no callback)
        base_cls = tree_cls

        class KeyedTree(base_cls):
            def calc_data_id(self, data):
                return keyed_calc_id(self, data)

        tree_cls = KeyedTree
    tree = tree_cls(name, **kw)
    if mk is None:
        mk = make_data_factory(flavour)
    if order == "rev":
        nodes = [None] * len(spec.nodes)
        ch = children_of([r[0] for r in spec.nodes])
        level = [-1]
        while level:
            nxt = []
            for pi in reversed(level):  # parents last-to-first as well: clones below different parents register in reverse
                parent = tree if pi == -1 else nodes[pi]
                for ci in reversed(ch[pi]):
                    _p, lab, did, kind = spec.nodes[ci]
                    args = {"before": True}
                    if did is not None:
                        args["data_id"] = did
                    if spec.typed:
                        args["kind"] = kind
                    if node_ids == "even" and ci % 2 == 0:
                        args["node_id"] = 7000 + ci
                    nodes[ci] = parent.add(mk(lab), **args)
                nxt += ch[pi]
            level = nxt
        return tree, nodes
    nodes = []
    for ci, (p, lab, did, kind) in enumerate(spec.nodes):
        parent = tree if p == -1 else nodes[p]
        args = {}
        if did is not None:
            args["data_id"] = did
        if spec.typed:
            args["kind"] = kind
        if node_ids == "even" and ci % 2 == 0:
            args["node_id"] = 7000 + ci
        nodes.append(parent.add(mk(lab), **args))
    return tree, nodes


def spec_of(tree) -> Spec:
    """Inverse of build for string trees (used for canonical hashing of results)."""
    recs = []
    index = {}

    def walk(node, pidx):
        for c in node._children or ():
            index[id(c)] = len(recs)
            did = c._data_id if c._data_id != hash(c._data) else None
            recs.append((pidx, str(c._data), did, getattr(c, "_kind", None)))
            walk(c, index[id(c)])

    walk(tree._root, -1)
    return Spec(tuple(recs), typed=hasattr(tree._root, "_kind"))
