"""python3-vt -m vlib.validate : validate MANIFEST.json and every evidence file against the schemas."""
import glob, json, os, sys
import jsonschema
V = os.path.dirname(os.path.dirname(os.path.abspath(__file__)))
ok = True
try:
    jsonschema.validate(json.load(open(f"{V}/MANIFEST.json")), json.load(open("/root/.vp/MANIFEST.schema.json")))
    print("MANIFEST.json valid")
except Exception as e:
    ok = False; print("MANIFEST.json INVALID:", str(e)[:500])
es = json.load(open("/root/.vp/EVIDENCE.schema.json"))
for f in sorted(glob.glob(f"{V}/evidence/*.json")):
    try:
        jsonschema.validate(json.load(open(f)), es); print(os.path.basename(f), "valid")
    except Exception as e:
        ok = False; print(os.path.basename(f), "INVALID:", str(e)[:500])
sys.exit(0 if ok else 1)
