"""Single source of the per-property claims; `python3 -m vlib.manifest` rewrites MANIFEST.json."""
from __future__ import annotations

import json
import os

VERIF = os.path.dirname(os.path.dirname(os.path.abspath(__file__)))

# level category claimed per property (DESIGN §1).  'proof' is claimed only where every
# obligation tagged with the property is discharged deductively and no function it depends
# on sits in the bounded tier; everything mixed is 'other'.
LEVELS = {f"C{i:02d}": "other" for i in range(1, 21)}

ASSUMPTIONS: dict[str, list[str]] = {
    "C02": ["hash() and a user calc_data_id callback are pure and deterministic (uninterpreted functions)"],
    "C04": ["list.sort(key=, reverse=) is a stable sort (assumed contract)"],
    "C05": ["json.dump/load are inverse on JSON values; zipfile/bz2/lzma/deflate codecs and io.TextIOWrapper round-trip bytes"],
    "C06": ["random.shuffle permutes; dict.values() enumerates each entry once"],
    "C09": ["re.compile(p).fullmatch is a pure predicate of (pattern, flags, name)"],
    "C12": ["json (assumed)"],
    "C17": ["rdflib.Graph.add adds the triple to a set"],
    "C18": ["threading.RLock gives mutual exclusion between threads and is re-entrant for its owner; no thread schedule is explored"],
    "C19": ["pathlib/OS: iterdir, is_dir, is_file, stat, sorted() behave as documented (validated only by the bounded run on real directories)"],
    "C20": ["random.random/randrange/uniform/sample, float and date arithmetic, fabulist"],
}

# property -> (claimed?, technique, level text, level note, design ref)
CLAIMS: dict[str, dict] = {}


def claim(pid, technique, text, note, ref):
    CLAIMS[pid] = {"technique": technique, "text": text, "note": note, "ref": ref}


NOT_YET = "check not built yet (build in progress; see DESIGN.md §9 build order)"

claim("C01", "contracts (wf representation invariant as pre/postcondition of every mutator) discharged by pyvc+z3 where in reach; bounded evaluation of the same invariant on the real code elsewhere",
      "wf(T) is required and ensured by every public mutator (induction over histories). Obligations generated from the real AST are discharged by z3/cvc5; functions outside the engine's reach are checked by exhaustive enumeration of all wf pre-states up to a stated bound against the same invariant (labelled bounded).",
      "trusted: pyvc encoding, SMT solvers, builtin contracts; bounded parts exhaustive only within bounds", "§5 C01")
claim("C03", "contracts (sibling-uniqueness clause U of wf + exceptional postconditions 'refused with UniqueConstraintError, unchanged') ; deductive where in reach, bounded elsewhere",
      "Clause U of wf is carried through every mutator; every route that would create a duplicate must raise UniqueConstraintError and leave the tree unchanged.",
      "as C01", "§5 C03")
claim("C04", "functional postconditions + frame conditions of every mutator against an independent executable specification (native/model.py) ; deductive where in reach, bounded elsewhere",
      "Each mutator's effect on the abstract view (position rules of `before`, order, frame) is a postcondition taken from the documentation; the bounded tier runs real code and model side by side on every enumerated pre-state/argument combination and on random histories.",
      "list.sort assumed stable; bounded parts exhaustive only within bounds", "§5 C04")

ORDER = [f"C{i:02d}" for i in range(1, 21)]


def build() -> dict:
    checks = []
    na = []
    for pid in ORDER:
        if pid in CLAIMS:
            c = CLAIMS[pid]
            checks.append(
                {
                    "property_id": pid,
                    "quick_cmd": f"./check {pid} --tier quick",
                    "thorough_cmd": f"./check {pid} --tier thorough",
                    "evidence_file": f"evidence/{pid}.json",
                    "replay_cmd_template": "./check --replay {path}",
                    "engine": "pyvc+native",
                    "level_claimed": {"category": LEVELS[pid], "text": c["text"], "design_ref": c["ref"]},
                    "level_note": c["note"],
                    "technique": c["technique"],
                }
            )
        else:
            na.append({"property_id": pid, "reason": NOT_APPLICABLE.get(pid, NOT_YET)})
    return {
        "version": 1,
        "setup_cmd": "./setup.sh",
        "hooks": {
            "guard": "NUTREE_VERIF",
            "enable": "none needed: contracts are sidecar files under /verif/contracts, the verifier reads /repo's source text and the native side imports the unmodified package (NUTREE_VERIF is unused)",
            "baseline_off_cmd": "cd /repo && /venv/bin/python -m pytest -ra -q -p no:cacheprovider --timeout=900 --continue-on-collection-errors",
            "source_commits": [],
            "add_only": True,
        },
        "engines": [
            {"name": "pyvc", "path": "pyvc/", "serves_properties": sorted(CLAIMS), "kind_free_text": "deductive verifier for a Python subset written for this task: real AST -> symbolic execution -> VCs -> z3 (E-matching) / cvc5; sidecar contracts in contracts/"},
            {"name": "native", "path": "native/", "serves_properties": sorted(CLAIMS), "kind_free_text": "bounded stand-in and replay: contracts / independent model evaluated on the real code over exhaustively enumerated small scopes (labelled bounded, never counted as proved)"},
        ],
        "checks": checks,
        "not_applicable": na,
        "notes": "Exit codes of ./check: 0 held, 1 VIOLATION (replay file), 2 undecided, 3 checker error. NUTREE_SRC overrides /repo for self-tests on scratch copies.",
    }


NOT_APPLICABLE: dict[str, str] = {}


def main():
    m = build()
    with open(os.path.join(VERIF, "MANIFEST.json"), "w") as f:
        json.dump(m, f, indent=1)
    print(f"MANIFEST.json: {len(m['checks'])} checks, {len(m['not_applicable'])} not claimed")


if __name__ == "__main__":
    main()
