"""Single source of the per-property claims; `python3 -m vlib.manifest` rewrites MANIFEST.json."""
from __future__ import annotations

import json
import os

VERIF = os.path.dirname(os.path.dirname(os.path.abspath(__file__)))

# level category claimed per property (DESIGN §1).  'proof' is claimed only where every
# obligation tagged with the property is discharged deductively and no function it depends
# on sits in the bounded tier; everything mixed is 'other'.
LEVELS = {f"C{i:02d}": "other" for i in range(1, 21)}

ASSUMPTIONS: dict[str, list[str]] = {
    "C02": ["hash() and a user calc_data_id callback are pure and deterministic (uninterpreted functions)"],
    "C04": ["list.sort(key=, reverse=) is a stable sort (assumed contract)"],
    "C05": ["json.dump/load are inverse on JSON values; zipfile/bz2/lzma/deflate codecs and io.TextIOWrapper round-trip bytes"],
    "C06": ["random.shuffle permutes; dict.values() enumerates each entry once"],
    "C09": ["re.compile(p).fullmatch is a pure predicate of (pattern, flags, name)"],
    "C12": ["json (assumed)"],
    "C17": ["rdflib.Graph.add adds the triple to a set"],
    "C18": ["threading.RLock gives mutual exclusion between threads and is re-entrant for its owner; no thread schedule is explored"],
    "C19": ["pathlib/OS: iterdir, is_dir, is_file, stat, sorted() behave as documented (validated only by the bounded run on real directories)"],
    "C20": ["random.random/randrange/uniform/sample, float and date arithmetic, fabulist"],
}

# property -> (claimed?, technique, level text, level note, design ref)
CLAIMS: dict[str, dict] = {}


def claim(pid, technique, text, note, ref):
    CLAIMS[pid] = {"technique": technique, "text": text, "note": note, "ref": ref}


NOT_YET = "check not built yet (build in progress; see DESIGN.md §9 build order)"

DED = "sidecar contracts on the real functions; VCs generated from /repo's current AST by pyvc and discharged by z3 (E-matching) / cvc5"
BND = "bounded stand-in: the same clauses / an independent oracle evaluated natively on the real code over exhaustively enumerated small scopes (labelled bounded, never counted as proved)"
XCHK = "every contract clause (assumed contracts included) is additionally evaluated on entry/exit snapshots of real CPython calls (run-time cross-check, not a proof)"
NOTE = "trusted: pyvc encoding + built-in contracts of list/dict/len/isinstance, z3/cvc5, closed class table; bounded parts are exhaustive only within the stated bounds"

claim("C01", f"{DED} for wf-preservation of the mutators in reach; {BND} for all mutators (model-vs-real sweeps, histories); {XCHK}",
      "wf(T) (reachability, single parent, exactly-once by identity, acyclic via ghost rank, exact count, unique node ids) is required and ensured by every public mutator: induction over histories. Functions outside the engine's reach are checked by enumerating all wf pre-states up to a bound against the same invariant.", NOTE, "§5 C01")
claim("C02", f"{DED} for the index invariants I1/I2 and the lookup/clone queries in reach; {BND} for lookups after every mutation; {XCHK}",
      "The id index and the clone lists are exact (clauses I1/I2 of wf, carried by every mutator); each lookup/clone query has a postcondition over those indexes.", NOTE + "; hash and user calc_data_id are uninterpreted", "§5 C02")
claim("C03", f"{DED} for clause U of wf and the refusal cases in reach; {BND} for every route that could create a duplicate; {XCHK}",
      "Clause U (no two siblings with one data_id) is part of wf; every route that would create a duplicate must raise UniqueConstraintError and leave the tree unchanged.", NOTE, "§5 C03")
claim("C04", f"functional postconditions + frame conditions of every mutator against an independent executable specification; {DED} where in reach, {BND} elsewhere; {XCHK}",
      "Each mutator's effect on the abstract view (documented `before` rules, order, frame) is a postcondition taken from the documentation; real code and model run side by side on every enumerated pre-state/argument combination and on random histories.", NOTE + "; list.sort assumed stable", "§5 C04")
claim("C05", f"{BND} of the round-trip contract load(save(T, opts)) ~ T over trees x option matrix; {DED} only for the mapper adapter call_mapper and the per-node payload (_make_list_entry)",
      "Document-level round trip is out of the deductive engine's reach (json/zip/io are assumed); decided by the bounded tier over small trees x the full option matrix.", NOTE + "; json/zipfile/io assumed", "§5 C05")
claim("C06", f"{DED} for call_traversal_cb, the generators _iter_pre/_iter_post/_iter_level and Node/Tree.iterator (recursive spec sequences Pre/Post, level spec), and for Node.visit / Tree.visit / _visit_pre / _visit_post in PRE_ORDER and POST_ORDER (the callback's event trace against the visit grammar: order, skip, stop, error); {BND} for all methods x start nodes x control signals incl. visit(LEVEL_ORDER), which is only an assumed variant of the visit contract",
      "Iterators are specified against recursive mathematical sequences; visit by the trace of callback events (node, outcome kind) that must be derivable in the grammar of the documented visit.", NOTE + "; random.shuffle, dict order assumed", "§5 C06")
claim("C07", f"{DED} for the shallow copy routes (add_child with a node child, its shortcuts, copy_to(add_self=True): fresh node, same data object and data_id, source unchanged); {BND} of all copy contracts incl. deep copies, add(tree), Tree.copy (fresh nodes, same data objects/ids/kinds, order, source frame unchanged, independence)",
      "Copy routes are checked against the independent model incl. the source tree's frame (order of its child lists) and mutation of either side afterwards.", NOTE, "§5 C07")
claim("C08", f"{DED} for call_predicate normalisation; {BND} of filter/filtered/copy(predicate) against a recursive Keep spec over all verdict assignments",
      "Keep(n, V) is defined from the property statement; all assignments of the six verdict kinds (returned/raised) to the nodes of all small trees are enumerated.", NOTE + "; closures with shared mutable state are out of the engine's reach", "§5 C08")
claim("C09", f"{DED} for the index-path searches and Tree.__getitem__/__contains__ in reach; {BND} for pattern/predicate searches; {XCHK}",
      "Search results are specified as the ordered filter of the pre-order sequence; index access by its resolution order and error cases.", NOTE + "; re.fullmatch is an uninterpreted predicate", "§5 C09")
claim("C10", f"{DED}: every relationship query in reach has a postcondition over parent/children/pos/rank/upk of the entry heap; calc_height through the contract of its nested recursive function; {BND} for the rest (get_path) and again for everything on enumerated trees, trees reached by a history and larger trees; {XCHK}",
      "Read-only queries are proved equal to their definition over the abstract view for all wf trees of unbounded size (loops carry inductive invariants with ghost counters); equal-comparing siblings are covered because list searches are specified by identity.", NOTE, "§5 C10")
claim("C11", f"{BND} of the projection laws of diff over all ordered pairs of small labelled trees x ordered x reduce",
      "diff_tree is a recursion through a closure writing captured sets plus clone lookups and filter: out of the deductive engine's reach; decided by the bounded tier.", NOTE, "§5 C11")
claim("C12", f"{BND}: writer output checked against the documented layout, independent encoder + literal documentation examples fed to the reader, malformed headers; {DED} only for the mapper adapter call_mapper and the per-node payload (_make_list_entry, both classes)",
      "Both directions of the documented file layout.", NOTE + "; json assumed", "§5 C12")
claim("C13", f"{DED}: exceptional postconditions (raises ... ensures unchanged) of the operations in reach, with a forked raising path at every callback invocation; {BND}: every refused call of the sweeps must leave obs() unchanged, callbacks raising at the k-th invocation; {XCHK}",
      "Refusals leave the tree observably unchanged; callback exceptions leave it well-formed.", NOTE, "§5 C13")
claim("C14", f"{BND} of to_dict_list/from_dict round trip and shape; {DED} for Tree.to_dict_list (entry count, tree unmodified, no exception on an emptied tree) and call_mapper",
      "Nested JSON values need a recursive value datatype in the logic; decided by the bounded tier.", NOTE, "§5 C14")
claim("C15", f"{DED}: all 12 kind-aware TypedNode queries proved against 'filter the child/sibling list by kind' (ghost embedding witnesses); {BND} as cross-check and for TypedTree.iter_by_type; {XCHK}",
      "Kind-aware queries equal filtering by kind for all typed wf trees of unbounded size, every kind, any_kind on/off, every position.", NOTE, "§5 C15")
claim("C16", f"{BND}: independent expected-prefix function and a decoder over all styles x titles x add_self x trees (nothing in the deductive tier)",
      "Concrete strings for every style of the style table.", NOTE, "§5 C16")
claim("C17", f"{BND}: DOT/Mermaid text parsed back, RDF graph queried, compared with the tree for all small trees x options; {DED} only for the mapper adapter call_mapper",
      "Exports are generators over abstract formatting; the concrete text is decided by the bounded tier.", NOTE + "; rdflib assumed", "§5 C17")
claim("C18", f"{DED}: lock-discipline obligations (every structure read of a snapshot operation happens while tree._lock is held; held count restored on every exit) generated from the real source; native two-thread harness as witness side",
      "Contracts cannot quantify over schedules; they discharge what the schedule argument needs from the code, given the assumed RLock contract.", NOTE + "; threading.RLock mutual exclusion assumed; no schedule explored", "§5 C18")
claim("C19", f"{BND} on generated real directories (oracle os.scandir), sort on/off, save/load with the FileSystemTree mappers",
      "The function's content is its interaction with the OS, which a contract can only assume.", NOTE + "; pathlib/OS assumed", "§5 C19")
claim("C20", f"{BND} over generated structure definitions x seeds x tree classes (nothing in the deductive tier)",
      "Whole-tree conformance is decided by the bounded tier; randomness is assumed.", NOTE + "; random, float/date arithmetic assumed", "§5 C20")

# properties whose check is wired up (native module present and triaged)
READY = {"C01", "C02", "C03", "C04", "C05", "C06", "C07", "C08", "C09", "C10", "C11", "C12", "C13", "C14", "C15", "C16", "C17", "C18", "C19", "C20"}

ORDER = [f"C{i:02d}" for i in range(1, 21)]


def build() -> dict:
    checks = []
    na = []
    for pid in ORDER:
        if pid in CLAIMS and pid in READY:
            c = CLAIMS[pid]
            checks.append(
                {
                    "property_id": pid,
                    "quick_cmd": f"./check {pid} --tier quick",
                    "thorough_cmd": f"./check {pid} --tier thorough",
                    "evidence_file": f"evidence/{pid}.json",
                    "replay_cmd_template": "./check --replay {path}",
                    "engine": "pyvc+native",
                    "level_claimed": {"category": LEVELS[pid], "text": c["text"], "design_ref": c["ref"]},
                    "level_note": c["note"],
                    "technique": c["technique"],
                }
            )
        else:
            na.append({"property_id": pid, "reason": NOT_APPLICABLE.get(pid, NOT_YET)})
    return {
        "version": 1,
        "setup_cmd": "./setup.sh",
        "hooks": {
            "guard": "NUTREE_VERIF",
            "enable": "none needed: contracts are sidecar files under /verif/contracts, the verifier reads /repo's source text and the native side imports the unmodified package (NUTREE_VERIF is unused)",
            "baseline_off_cmd": "cd /repo && /venv/bin/python -m pytest -ra -q -p no:cacheprovider --timeout=900 --continue-on-collection-errors",
            "source_commits": [],
            "add_only": True,
        },
        "engines": [
            {"name": "pyvc", "path": "pyvc/", "serves_properties": sorted(READY), "kind_free_text": "deductive verifier for a Python subset written for this task: real AST -> symbolic execution -> VCs -> z3 (E-matching) / cvc5; sidecar contracts in contracts/"},
            {"name": "native", "path": "native/", "serves_properties": sorted(READY), "kind_free_text": "bounded stand-in and replay: contracts / independent model evaluated on the real code over exhaustively enumerated small scopes (labelled bounded, never counted as proved)"},
        ],
        "checks": checks,
        "not_applicable": na,
        "notes": "Exit codes of ./check: 0 held, 1 VIOLATION (replay file), 2 undecided, 3 checker error. NUTREE_SRC overrides /repo for self-tests on scratch copies.",
    }


NOT_APPLICABLE: dict[str, str] = {}


def main():
    m = build()
    with open(os.path.join(VERIF, "MANIFEST.json"), "w") as f:
        json.dump(m, f, indent=1)
    print(f"MANIFEST.json: {len(m['checks'])} checks, {len(m['not_applicable'])} not claimed")


if __name__ == "__main__":
    main()
