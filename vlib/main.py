"""./check <PROP> [--tier quick|thorough]      decide one property on /repo's current tree
   ./check --replay <file>                      re-run a stored witness on the real code

Orchestrates the two halves (DESIGN §3):
  * deductive:  pyvc (this interpreter, python3-vt with z3) generates the verification
    conditions of every contract clause tagged with the property from /repo's *current*
    source and discharges them with z3 / cvc5;
  * native:     /venv/bin/python runs the bounded stand-in (same contracts / independent
    model evaluated on the real code over exhaustively enumerated small scopes) and
    replays witnesses.
Exit codes: 0 held | 1 VIOLATION | 2 undecided | 3 checker error  (DESIGN §3.8).
"""
from __future__ import annotations

import argparse
import hashlib
import json
import os
import subprocess
import sys
import tempfile
import time
import traceback

VERIF = os.path.dirname(os.path.dirname(os.path.abspath(__file__)))
SRC = os.environ.get("NUTREE_SRC", "/repo")
NATIVE_PY = os.environ.get("VERIF_NATIVE_PY", "/venv/bin/python")
sys.path.insert(0, VERIF)

ALL_PROPS = [f"C{i:02d}" for i in range(1, 21)]


def load_findings():
    p = os.path.join(VERIF, "known_findings.json")
    if not os.path.exists(p):
        return {"findings": [], "fixed": []}
    return json.load(open(p))


def finding_matches(f: dict, v: dict) -> bool:
    m = f.get("match", {})
    if f.get("property") != v.get("prop"):
        return False
    if "func" in m and m["func"] != v.get("func"):
        return False
    if "clause" in m and m["clause"] != v.get("clause"):
        return False
    if "clause_prefix" in m and not str(v.get("clause", "")).startswith(m["clause_prefix"]):
        return False
    pred = m.get("pred")
    if pred:
        try:
            return bool(eval(pred, {"__builtins__": {}}, {"w": v.get("witness", {}), "text": v.get("text", ""), "len": len, "any": any, "all": all, "str": str}))  # noqa: S307
        except Exception:  # noqa: BLE001
            return False
    return True


def run_native(prop: str, tier: str, only: str | None = None) -> dict:
    env = dict(os.environ)
    env["PYTHONPATH"] = f"{SRC}:{VERIF}"
    env.setdefault("PYTHONHASHSEED", "0")
    with tempfile.NamedTemporaryFile("r", suffix=".json", delete=False) as tf:
        out = tf.name
    cmd = [NATIVE_PY, "-m", "native.run", prop, "--tier", tier, "--out", out]
    if only:
        cmd += ["--only", only]
    try:
        r = subprocess.run(cmd, cwd=VERIF, env=env, capture_output=True, text=True, timeout=int(os.environ.get("VERIF_NATIVE_TIMEOUT", "3300")))
        try:
            js = json.load(open(out))
        except Exception:  # noqa: BLE001
            js = {"prop": prop, "evaluations": 0, "distinct_nontrivial": 0, "violations": [], "samples": [], "bounds": {}, "notes": [], "errors": [f"native runner produced no result (exit {r.returncode}): {r.stderr[-1500:]}"], "wall_s": 0, "exhaustive": False}
        if r.returncode != 0 and not js.get("errors"):
            js.setdefault("errors", []).append(f"native runner exit {r.returncode}: {r.stderr[-800:]}")
        return js
    except subprocess.TimeoutExpired:
        return {"prop": prop, "evaluations": 0, "distinct_nontrivial": 0, "violations": [], "samples": [], "bounds": {}, "notes": [], "errors": ["native runner timed out"], "wall_s": 0, "exhaustive": False, "timeout": True}
    finally:
        try:
            os.unlink(out)
        except OSError:
            pass


def run_deductive(prop: str, tier: str) -> dict | None:
    try:
        from pyvc import api
    except ImportError:
        return None
    return api.run_property(prop, tier, src=SRC)


def start_crosscheck(prop: str, tier: str):
    """run-time evaluation of the property's contracts on CPython (pyvc/rtdrive.py), concurrently with the two halves"""
    with tempfile.NamedTemporaryFile("r", suffix=".json", delete=False) as tf:
        out = tf.name
    env = dict(os.environ)
    env.setdefault("PYTHONHASHSEED", "0")
    cmd = [sys.executable, "-m", "pyvc.rtdrive", "--src", SRC, "--prop", prop, "--tier", tier, "--per-tree", "3" if tier == "quick" else "12", "--json", out]
    try:
        return subprocess.Popen(cmd, cwd=VERIF, env=env, stdout=subprocess.PIPE, stderr=subprocess.PIPE, text=True), out
    except OSError as e:
        return None, str(e)


def collect_crosscheck(handle) -> dict:
    proc, out = handle
    if proc is None:
        return {"functions": [], "errors": [f"cross-check not started: {out}"]}
    try:
        so, se = proc.communicate(timeout=int(os.environ.get("VERIF_RT_TIMEOUT", "1800")))
    except subprocess.TimeoutExpired:
        proc.kill()
        return {"functions": [], "errors": ["cross-check timed out"]}
    try:
        reps = json.load(open(out))
    except Exception:  # noqa: BLE001
        return {"functions": [], "errors": [f"cross-check produced no result (exit {proc.returncode}): {se[-800:]}"]}
    finally:
        try:
            os.unlink(out)
        except OSError:
            pass
    return {"functions": reps, "errors": []}


def write_replay(prop: str, payload: dict) -> str:
    d = os.path.join(os.environ.get("VERIF_REPLAY_DIR") or os.path.join(VERIF, "replays"), prop)
    os.makedirs(d, exist_ok=True)
    h = hashlib.blake2b(json.dumps(payload, sort_keys=True, default=str).encode(), digest_size=6).hexdigest()
    p = os.path.join(d, f"{h}.json")
    json.dump(payload, open(p, "w"), indent=1, default=str)
    return p


def replay(path: str) -> int:
    w = json.load(open(path))
    if w.get("kind") == "obligation":
        print(f"obligation {w['obligation']} (property {w['property']}) -- no failing input was found; re-running the proof attempt")
        from pyvc import api

        return api.replay_obligation(w, src=SRC)
    env = dict(os.environ)
    env.setdefault("PYTHONHASHSEED", "0")
    if w.get("kind") == "rtcheck":
        return subprocess.run([sys.executable, "-m", "pyvc.rtdrive", "--src", SRC, "--replay", path], cwd=VERIF, env=env).returncode
    env["PYTHONPATH"] = f"{SRC}:{VERIF}"
    r = subprocess.run([NATIVE_PY, "-m", "native.run", "--replay", path], cwd=VERIF, env=env)
    return r.returncode


def level_for(prop: str, ded: dict | None, nat: dict) -> str:
    from vlib.manifest import LEVELS

    return LEVELS.get(prop, "other")


def main(argv=None) -> int:
    for stream in (sys.stdout, sys.stderr):  # witnesses may hold lone surrogates (file names that are not valid UTF-8)
        try:
            stream.reconfigure(errors="backslashreplace")
        except Exception:  # noqa: BLE001
            pass
    ap = argparse.ArgumentParser()
    ap.add_argument("prop", nargs="?")
    ap.add_argument("--tier", default=os.environ.get("VERIF_TIER") or "quick")
    ap.add_argument("--replay")
    a = ap.parse_args(argv)
    if a.replay:
        return replay(a.replay)
    prop = a.prop
    if prop not in ALL_PROPS:
        print(f"unknown property {prop}", file=sys.stderr)
        return 3
    tier = a.tier if a.tier in ("quick", "thorough") else "quick"
    try:
        seed = int(os.environ.get("VERIF_SEED", "0"))
    except ValueError:
        seed = 0
    t0 = time.time()
    checker_errors: list[str] = []

    rt_handle = start_crosscheck(prop, tier)
    # ---------------- deductive half
    ded = None
    try:
        ded = run_deductive(prop, tier)
    except Exception:  # noqa: BLE001
        checker_errors.append("pyvc: " + traceback.format_exc()[-2000:])

    # ---------------- native half
    nat = run_native(prop, tier)
    checker_errors += [f"native: {e}" for e in nat.get("errors", [])]

    findings = load_findings()
    known = [f for f in findings.get("findings", []) if f.get("property") == prop and f.get("status", "known") == "known"]

    lines: list[str] = []
    n_viol = 0
    reproduced = []
    # native violations (each carries a replayable witness)
    groups: dict[str, list] = {}
    for v in nat.get("violations", []):
        hit = next((f for f in known if finding_matches(f, v)), None)
        if hit is not None:
            if hit["id"] not in [r["id"] for r in reproduced]:
                reproduced.append({"id": hit["id"], "what": hit.get("what", ""), "witness": v.get("witness"), "observed": v.get("text")})
            continue
        groups.setdefault(f"{v['func']}|{v['clause']}", []).append(v)
    for f in reproduced:
        lines.append(f"KNOWN-FINDING: property={prop} {f['id']} {f['what']}")
    native_funcs_with_witness = set()
    for key, vs in sorted(groups.items()):
        v = vs[0]
        native_funcs_with_witness.add(v["func"].split("(")[0].strip())
        path = write_replay(prop, {"kind": "native", "property": prop, "module": nat.get("module"), "obligation": f"{v['func']}/{v['clause']}", "witness": v["witness"], "observed": v["text"], "more_witnesses": [x["witness"] for x in vs[1:3]]})
        lines.append(f"VIOLATION property={prop} replay={os.path.relpath(path, VERIF)} obligation={v['func']}/{v['clause']} :: {v['text'][:200]}")
        n_viol += 1

    # run-time cross-check of the contracts on CPython: a failing clause comes with the concrete call that fails
    rt = collect_crosscheck(rt_handle)
    checker_errors += [f"cross-check: {e}" for e in rt.get("errors", [])]
    rt_witness_for: dict[str, str] = {}
    for rep in rt.get("functions", []):
        seen_clause = set()
        for f in rep.get("failures", []):
            v = {"prop": prop, "func": rep["qual"], "clause": f["clause"], "witness": f, "text": f["text"]}
            hit = next((k for k in known if finding_matches(k, v)), None)
            if hit is not None:
                if hit["id"] not in [r["id"] for r in reproduced]:
                    reproduced.append({"id": hit["id"], "what": hit.get("what", ""), "witness": f, "observed": f["text"]})
                continue
            if f["clause"] in seen_clause:
                continue
            seen_clause.add(f["clause"])
            path = write_replay(prop, {"kind": "rtcheck", "property": prop, "obligation": f"{rep['qual']}/{f['clause']}", "witness": f, "observed": f["text"],
                                       "note": "the real function was called on this input under CPython and the contract clause (the formula the prover discharges) evaluates to false on the entry/exit snapshots"})
            rt_witness_for.setdefault(rep["qual"], path)
            call = ", ".join(f"{k}={v[1] if v[0] == 'lit' else v[0] + ('' if v[1] is None else str(v[1]))}" for k, v in f["args"].items())
            lines.append(f"VIOLATION property={prop} replay={os.path.relpath(path, VERIF)} obligation={rep['qual']}/{f['clause']} :: real call on tree '{f['spec']}' ({call}) violates the clause: {f['text'][:160]}")
            n_viol += 1

    # deductive verdicts
    undecided = []
    if ded is not None:
        checker_errors += ded.get("errors", [])
        for ob in ded.get("open", []):
            # ob: {name, func, status, reason, in_ledger, solver_output}
            if ob.get("known_finding"):
                continue
            if ob["status"] in ("undecided",):
                undecided.append(ob)
                continue
            if not ob.get("in_ledger"):
                undecided.append(ob)  # never discharged on the unchanged tree: not a regression
                continue
            short = ob["func"].split(".")[-2] + "." + ob["func"].split(".")[-1] if "." in ob["func"] else ob["func"]
            if any(short.endswith(f) or f.endswith(short) for f in native_funcs_with_witness):
                continue  # the same function already has a replayed witness above
            if ob["func"] in rt_witness_for:
                lines.append(f"VIOLATION property={prop} replay={os.path.relpath(rt_witness_for[ob['func']], VERIF)} obligation={ob['name']} :: failing input of this function found by the run-time cross-check (see replay)")
                n_viol += 1
                continue
            path = write_replay(prop, {"kind": "obligation", "property": prop, "obligation": ob["name"], "func": ob["func"], "status": ob["status"], "solver_output": ob.get("solver_output", ""), "refuter": ob.get("refuter", ""), "note": "obligation was discharged on the unchanged tree (ledger) and is not any more; no failing input found by the finite-model refuter nor by the bounded search"})
            lines.append(f"VIOLATION property={prop} replay={os.path.relpath(path, VERIF)} obligation={ob['name']} no-failing-input-found")
            n_viol += 1

    wall = time.time() - t0
    # ---------------- evidence
    from vlib import evidence

    evidence.write(prop, tier, seed, ded, nat, reproduced, n_viol, undecided, checker_errors, wall, rt=rt)

    for l in lines:
        print(l)
    if ded is not None:
        print(f"[{prop}] deductive: {ded.get('discharged', 0)}/{ded.get('obligations', 0)} obligations discharged over {len(ded.get('functions', []))} functions ({ded.get('solver_s', 0):.1f}s solver)")
    if rt.get("functions"):
        print(f"[{prop}] cross-check: {sum(r['cases'] for r in rt['functions'])} real calls of {len([r for r in rt['functions'] if r['cases']])} contracted functions, {sum(r['clauses'] for r in rt['functions'])} clause evaluations on CPython snapshots, {sum(len(r['failures']) for r in rt['functions'])} failing")
    print(f"[{prop}] bounded: {nat.get('evaluations', 0)} evaluations, {nat.get('distinct_nontrivial', 0)} distinct non-trivial, {len(nat.get('violations', []))} raw violations; wall {wall:.1f}s")
    if n_viol:
        return 1
    if checker_errors:
        for e in checker_errors[:5]:
            print(f"CHECKER-ERROR {e[-600:]}", file=sys.stderr)
        return 3
    if undecided:
        for ob in undecided[:10]:
            print(f"UNDECIDED property={prop} obligation={ob['name']} reason={ob.get('reason', ob['status'])}")
        # open obligations that never were in the ledger do not fail the check (they are reported in the evidence)
        if any(ob["status"] == "undecided" and ob.get("in_ledger") for ob in undecided):
            return 2
    return 0


if __name__ == "__main__":
    sys.exit(main())
