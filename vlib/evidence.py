"""Writes /verif/evidence/<id>.json (schema /root/.vp/EVIDENCE.schema.json) from what a run
actually measured.  Nothing in here is a constant: counts come from the two halves."""
from __future__ import annotations

import json
import os

VERIF = os.path.dirname(os.path.dirname(os.path.abspath(__file__)))

TRUSTED_BASE = [
    "pyvc: the AST -> symbolic execution -> SMT translation written for this task (guarded by must-fail/vacuity queries and the mutant self-test, not proved)",
    "z3 5.1.0 / cvc5 1.0.3 answering unsat correctly",
    "Python semantics assumed by the encoding: mathematical integers, built-in contracts of list/dict/len/isinstance/truthiness/id/hash, slotted attribute access without side effects, no python -O",
    "definitional axioms of the spec functions (rank, pos, subtree, Pre/Post, ...) are consistent",
    "closed class table (Node, TypedNode, system roots, Tree, TypedTree, FileSystemTree); default node factory",
    "user callbacks are pure oracles that do not mutate the tree; data objects obey the hash/eq contract",
    "partial correctness: termination only where a decreases clause is stated",
    "generators are modelled eagerly by their yielded sequence: sound where the consumer does not write what the generator still reads (Node.remove_children, which does, is only assumed)",
    "traversal callbacks (C06): the event trace of a callback is a prophecy sequence TN/TK whose i-th entry is *defined* at the exit of call_traversal_cb (ghost counter tlen grows by one per call, so every index is defined once); the visit grammar VPre/VPost/VK* is given by introduction rules only (what is derived holds in their least fixed point)",
    "list.sort: assumed to leave a permutation of the list (order by key uninterpreted; a raising key callback leaves some permutation); ghost code attached to it moves the ghost positions `pos` of the sorted nodes along that permutation (specification-only state)",
    "nested functions are verified against their own sidecar contract (captured variables as pseudo-arguments); termination of their recursion is not proved",
    "the message expression of a failing assert is not evaluated (it can raise in CPython: see DESIGN 8.7a)",
    "assumed contracts / assumed parameter-type variants listed under assumed_contracts are used, never proved; the run-time cross-check evaluates them on real calls",
]


def write(prop, tier, seed, ded, nat, reproduced, n_viol, undecided, checker_errors, wall, rt=None):
    from vlib.manifest import LEVELS, ASSUMPTIONS

    level = LEVELS.get(prop, "other")
    cov: dict = {}
    obligations = discharged = 0
    if ded:
        obligations = int(ded.get("obligations", 0))
        discharged = int(ded.get("discharged", 0))
        cov.update(
            {
                "obligations": obligations,
                "discharged": discharged,
                "checker_cmd": f"./check {prop} --tier {tier}   (pyvc: VCs generated from {ded.get('src', '/repo')}/nutree/*.py as parsed on this run; back ends z3 {ded.get('z3_version', '?')} E-matching, cvc5 for z3's unknowns)",
                "trusted_base": TRUSTED_BASE,
                "functions_under_contract": ded.get("functions", []),
                "by_backend": ded.get("by_backend", {}),
                "solver_s": round(float(ded.get("solver_s", 0.0)), 3),
                "must_fail_guards": ded.get("must_fail", {}),
                "open_obligations": [{k: ob.get(k) for k in ("name", "status", "reason", "in_ledger", "known_finding")} for ob in ded.get("open", [])][:60],
                "out_of_reach": ded.get("out_of_reach", []),
                "assumed_contracts": ded.get("assumed", []),
                "assumption_scan": ded.get("assumption_scan", {}),
                "vc_samples": ded.get("samples", [])[:3],
            }
        )
    cov.update(
        {
            "evaluations": int(nat.get("evaluations", 0)),
            "distinct_nontrivial": int(nat.get("distinct_nontrivial", 0)),
            "rule": "bounded stand-in (labelled bounded, never counted as proved): " + "; ".join(f"{k}: {v}" for k, v in nat.get("bounds", {}).items())
            + " | a case is distinct by (canonical pre-state, operation/arguments) hash and non-trivial when the operation changes the observable state, is refused, or exercises the queried relation on a non-empty tree",
            "samples": (nat.get("samples", []) or ["<none>"])[:6],
            "exhaustive": bool(nat.get("exhaustive", False)),
            "bounded_functions": nat.get("bounds", {}),
            "known_findings_reproduced": reproduced,
        }
    )
    if rt and rt.get("functions"):
        cov["runtime_cross_check"] = {
            "what": "every clause of the sidecar contracts (the formulas the prover discharges; assumed contracts included) evaluated on entry/exit snapshots of real calls under CPython "
                    "(pyvc/rtcheck.py, rtdrive.py): guards the trusted base (engine semantics, axioms, assumed callee contracts, ghost definitions) and yields concrete failing inputs; not a proof",
            "real_calls": sum(r["cases"] for r in rt["functions"]),
            "clause_evaluations": sum(r["clauses"] for r in rt["functions"]),
            "calls_outside_precondition": sum(r["pre_rejected"] for r in rt["functions"]),
            "not_evaluable": sum(r["not_evaluable"] for r in rt["functions"]),
            "failing": sum(len(r["failures"]) for r in rt["functions"]),
            "per_function": {r["qual"]: {"calls": r["cases"], "clauses": r["clauses"], "not_evaluable": r["not_evaluable"], "why_not": list(r.get("reasons", {}))[:2]} for r in rt["functions"]},
        }
    nd = len([o for o in (ded or {}).get("open", []) if not o.get("known_finding")])
    cov["explanation"] = (
        f"Contract-based verification of the real nutree source. Deductive part: {discharged} of {obligations} generated proof obligations discharged"
        f" ({nd} open: listed under open_obligations; an open obligation is 'undecided', not a violation, unless it is in the committed ledger)."
        f" Bounded part: {cov['evaluations']} native evaluations of the same contracts / the independent model on the real code"
        f" ({cov['distinct_nontrivial']} distinct non-trivial). See DESIGN.md §1 for which functions are P (proved) and which are B (bounded)."
    )
    notes = list(nat.get("notes", []))
    ev = {
        "property_id": prop,
        "tier": tier,
        "seed": seed,
        "level": level,
        "coverage": cov,
        "assumptions": ASSUMPTIONS.get(prop, []) + ["see coverage.trusted_base", "bounded parts are exhaustive only within the stated bounds"] + notes,
        "wall_s": round(wall, 2),
        "violations": n_viol,
        "undecided": [ob.get("name") for ob in undecided][:60],
        "checker_errors": checker_errors[:5],
    }
    if level == "proof" and (obligations == 0 or discharged != obligations):
        ev["level"] = "other"  # never claim proof when something is open
    evdir = os.environ.get("VERIF_EVIDENCE_DIR") or os.path.join(VERIF, "evidence")
    os.makedirs(evdir, exist_ok=True)
    with open(os.path.join(evdir, f"{prop}.json"), "w") as f:
        json.dump(ev, f, indent=1, default=str)
