"""Throw-away spike: mechanically symbolic-execute the REAL AST of TypedNode.has_children / next_sibling
   (read from /repo on every run), emit VCs, prove with z3 (E-matching), refute with cvc5 FMF."""
import ast, sys, time, subprocess, itertools, textwrap, os, tempfile
OUTDIR = tempfile.mkdtemp(prefix='nutree-spike-')
from z3 import *

SRC = open('/repo/nutree/typed_tree.py').read()
MOD = ast.parse(SRC)
def find_method(cls, name):
    for c in MOD.body:
        if isinstance(c, ast.ClassDef) and c.name == cls:
            for f in c.body:
                if isinstance(f, ast.FunctionDef) and f.name == name:
                    return f
    raise KeyError(name)

I = IntSort(); B = BoolSort()
Ref = DeclareSort('Ref'); LRef = DeclareSort('LRef'); Kind = DeclareSort('Kind'); Data = DeclareSort('Data')
NONE = Const('NONE', Ref); LNONE = Const('LNONE', LRef); ANY = Const('ANY_KIND', Kind)
f_parent = Function('_parent', Ref, Ref); f_children = Function('_children', Ref, LRef); f_kind = Function('_kind', Ref, Kind)
f_data = Function('_data', Ref, Data); data_eq = Function('data_eq', Data, Data, B)
llen = Function('llen', LRef, I); litem = Function('litem', LRef, I, Ref)
mem = Function('mem', Ref, B); pos = Function('pos', Ref, I)
def node_eq(a, b): return Or(a == b, data_eq(f_data(a), f_data(b)))

# ---- typed symbolic values
class V:   # kind in {'ref','lref','int','bool','none','kind'}
    def __init__(s, t, z=None): s.t, s.z = t, z
NoneV = V('none')

class Path:
    def __init__(s, env, conds): s.env, s.conds = dict(env), list(conds)
    def fork(s): return Path(s.env, s.conds)

class Return(Exception): pass

VCS = []      # (name, hyps, goal)
OUT = []      # finished paths: (conds, retval or ('raise', cls))
fresh_ctr = itertools.count()
def fresh(name, sort): return Const(f'{name}!{next(fresh_ctr)}', sort)

def truthy(v):
    if v.t == 'bool': return v.z
    if v.t == 'none': return BoolVal(False)
    if v.t == 'lref': return And(v.z != LNONE, llen(v.z) > 0)
    if v.t == 'int': return v.z != 0
    if v.t == 'ref': return v.z != NONE
    raise NotImplementedError(v.t)

def ev(e, p, ctx):
    """evaluate expression -> V ; may fork only via ctx (kept trivial here)"""
    if isinstance(e, ast.Name): return p.env[e.id]
    if isinstance(e, ast.Constant):
        if e.value is None: return NoneV
        if isinstance(e.value, bool): return V('bool', BoolVal(e.value))
        if isinstance(e.value, int): return V('int', IntVal(e.value))
    if isinstance(e, ast.Attribute):
        o = ev(e.value, p, ctx)
        assert o.t == 'ref', ast.dump(e)
        ctx.oblige(f'attr-on-None:{e.attr}@{e.lineno}', p, o.z != NONE)
        if e.attr == '_children': return V('lref', f_children(o.z))
        if e.attr == '_parent': return V('ref', f_parent(o.z))
        if e.attr == '_kind' or e.attr == 'kind': return V('kind', f_kind(o.z))
    if isinstance(e, ast.Subscript):
        l = ev(e.value, p, ctx); i = ev(e.slice, p, ctx)
        assert l.t == 'lref' and i.t == 'int'
        ctx.oblige(f'index-in-range@{e.lineno}', p, And(l.z != LNONE, 0 <= i.z, i.z < llen(l.z)))   # (negative idx not needed here)
        return V('ref', litem(l.z, i.z))
    if isinstance(e, ast.BinOp):
        a, b = ev(e.left, p, ctx), ev(e.right, p, ctx)
        op = {ast.Add: lambda x, y: x + y, ast.Sub: lambda x, y: x - y}[type(e.op)]
        return V('int', op(a.z, b.z))
    if isinstance(e, ast.UnaryOp) and isinstance(e.op, ast.USub):
        return V('int', -ev(e.operand, p, ctx).z)
    if isinstance(e, ast.UnaryOp) and isinstance(e.op, ast.Not):
        return V('bool', Not(truthy(ev(e.operand, p, ctx))))
    if isinstance(e, ast.BoolOp):
        vals = [truthy(ev(x, p, ctx)) for x in e.values]      # used only in boolean context in this spike
        return V('bool', (Or if isinstance(e.op, ast.Or) else And)(*vals))
    if isinstance(e, ast.Compare) and len(e.ops) == 1:
        a, b = ev(e.left, p, ctx), ev(e.comparators[0], p, ctx); op = e.ops[0]
        if isinstance(op, (ast.Is, ast.IsNot)):
            if a.t == 'none' or b.t == 'none':
                o = b if a.t == 'none' else a
                r = {'ref': lambda: o.z == NONE, 'lref': lambda: o.z == LNONE, 'none': lambda: BoolVal(True)}.get(o.t, lambda: BoolVal(False))()
            else: r = a.z == b.z
            return V('bool', Not(r) if isinstance(op, ast.IsNot) else r)
        if isinstance(op, (ast.Eq, ast.NotEq)):
            r = a.z == b.z          # ints / kinds only
            return V('bool', Not(r) if isinstance(op, ast.NotEq) else r)
        cmp = {ast.Lt: lambda x, y: x < y, ast.LtE: lambda x, y: x <= y, ast.Gt: lambda x, y: x > y, ast.GtE: lambda x, y: x >= y}[type(op)]
        return V('bool', cmp(a.z, b.z))
    if isinstance(e, ast.Call):
        fn = e.func
        if isinstance(fn, ast.Name) and fn.id == 'len':
            l = ev(e.args[0], p, ctx); assert l.t == 'lref'
            ctx.oblige(f'len-of-None@{e.lineno}', p, l.z != LNONE)
            return V('int', llen(l.z))
        if isinstance(fn, ast.Name) and fn.id == 'bool':
            return V('bool', truthy(ev(e.args[0], p, ctx)))
        if isinstance(fn, ast.Attribute) and fn.attr == 'index':          # list.index(x): first i with elem is x or elem == x
            l = ev(fn.value, p, ctx); x = ev(e.args[0], p, ctx)
            ctx.oblige(f'index-on-None@{e.lineno}', p, l.z != LNONE)
            r = fresh('idx', I); k = Int('k!q')
            found = And(0 <= r, r < llen(l.z), node_eq(litem(l.z, r), x.z),
                        ForAll([k], Implies(And(0 <= k, k < r), Not(node_eq(litem(l.z, k), x.z))), patterns=[litem(l.z, k)]))
            # ValueError path if not found -- obligation: must be found
            k2 = Int('k2!q')
            ctx.oblige(f'list.index-finds@{e.lineno}', p, Exists([k2], And(0 <= k2, k2 < llen(l.z), node_eq(litem(l.z, k2), x.z))))
            p.conds.append(found)
            return V('int', r)
        if isinstance(fn, ast.Attribute) and fn.attr == 'get_children':   # MODULAR: callee contract, not body
            o = ev(fn.value, p, ctx); kd = ev(e.args[0], p, ctx)
            res = fresh('filt', LRef); i_, j_ = Int('i!q'), Int('j!q')
            s = f_children(o.z)
            p.conds += ctx.contract_get_children(o.z, kd.z, res)
            return V('lref', res)
    raise NotImplementedError(ast.dump(e)[:200])

class Ctx:
    def __init__(s, fname): s.fname = fname
    def oblige(s, name, p, goal): VCS.append((f'{s.fname}#{name}', list(p.conds), goal))
    def contract_get_children(s, o, kd, res):
        """ensures of TypedNode.get_children(kind) for kind != ANY_KIND (index-quantified 'filter by kind'):
           res fresh list; strictly increasing embedding emb into children; exactly the kind-matching ones."""
        emb = Function(f'emb!{next(fresh_ctr)}', I, I); i, j = Int('i!q'), Int('j!q'); s_ = f_children(o)
        n = If(s_ == LNONE, 0, llen(s_))
        return [res != LNONE, llen(res) >= 0,
                ForAll([i], Implies(And(0 <= i, i < llen(res)), And(0 <= emb(i), emb(i) < n, litem(res, i) == litem(s_, emb(i)), f_kind(litem(s_, emb(i))) == kd)), patterns=[litem(res, i)]),
                ForAll([i, j], Implies(And(0 <= i, i < j, j < llen(res)), emb(i) < emb(j)), patterns=[MultiPattern(emb(i), emb(j))]),
                ForAll([j], Implies(And(0 <= j, j < n, f_kind(litem(s_, j)) == kd), Exists([i], And(0 <= i, i < llen(res), emb(i) == j))), patterns=[litem(s_, j)])]

def exec_block(stmts, p, ctx, inv):
    """returns list of paths that fall through"""
    paths = [p]
    for st in stmts:
        nxt = []
        for q in paths: nxt += exec_stmt(st, q, ctx, inv)
        paths = nxt
    return paths

def exec_stmt(st, p, ctx, inv):
    if isinstance(st, ast.Expr) and isinstance(st.value, ast.Constant): return [p]     # docstring (dropped)
    if isinstance(st, ast.Assign):
        p.env[st.targets[0].id] = ev(st.value, p, ctx); return [p]
    if isinstance(st, ast.Return):
        OUT.append((list(p.conds), ev(st.value, p, ctx) if st.value else NoneV)); return []
    if isinstance(st, ast.If):
        c = truthy(ev(st.test, p, ctx))
        a, b = p.fork(), p.fork(); a.conds.append(c); b.conds.append(Not(c))
        return exec_block(st.body, a, ctx, inv) + exec_block(st.orelse, b, ctx, inv)
    if isinstance(st, ast.For) and isinstance(st.iter, ast.Call) and st.iter.func.id == 'range':
        args = [ev(a, p, ctx).z for a in st.iter.args]
        start, stop, step = (args + [IntVal(1)])[:3] if len(args) == 3 else (args[0], args[1], IntVal(1))
        assert is_int_value(step) and step.as_long() in (1, -1)
        var = st.target.id
        it = fresh(var, I)                      # arbitrary iteration: havoc loop var, assume invariant
        lo_ok = And(start <= it, it < stop) if step.as_long() == 1 else And(stop < it, it <= start)
        # invariant entry
        ctx.oblige(f'loop-inv-entry@{st.lineno}', p, inv(p, start))
        q = p.fork(); q.env[var] = V('int', it); q.conds += [lo_ok, inv(q, it)]
        after_body = exec_block(st.body, q, ctx, inv)
        for r in after_body:
            ctx.oblige(f'loop-inv-preserved@{st.lineno}', r, inv(r, it + step))
        ex = p.fork(); end = fresh(var + '_end', I)
        ex.conds += [If(step.as_long() == 1, end == If(stop > start, stop, start), end == If(stop < start, stop, start)), inv(ex, end)]
        return [ex]
    raise NotImplementedError(ast.dump(st)[:200])

# ---------------- wf (read-only slice needed here) ----------------
def wf():
    n, p_ = Consts('n!w p!w', Ref); i = Int('i!w')
    clen = lambda x: If(f_children(x) == LNONE, 0, llen(f_children(x)))
    return [Not(mem(NONE)),
            ForAll([n], Implies(mem(n), And(f_parent(n) != NONE, 0 <= pos(n), pos(n) < clen(f_parent(n)), litem(f_children(f_parent(n)), pos(n)) == n, f_kind(n) != ANY)), patterns=[mem(n)]),
            ForAll([p_, i], Implies(And(0 <= i, i < clen(p_)), And(mem(litem(f_children(p_), i)), f_parent(litem(f_children(p_), i)) == p_, pos(litem(f_children(p_), i)) == i)), patterns=[litem(f_children(p_), i)]),
            ForAll([p_], Implies(f_children(p_) != LNONE, llen(f_children(p_)) > 0), patterns=[f_children(p_)])]

def run(cls, name, params, pre, post, inv=None):
    global VCS, OUT; VCS, OUT = [], []
    fdef = find_method(cls, name); ctx = Ctx(f'{cls}.{name}')
    p = Path(params, wf() + pre)
    for q in exec_block(fdef.body, p, ctx, inv): OUT.append((q.conds, NoneV))
    for k_, (conds, rv) in enumerate(OUT):
        VCS.append((f'{cls}.{name}#exit{k_}/ensures', conds, post(rv)))
    return VCS

def prove(hyps, goal):
    s = SimpleSolver(); s.set('auto_config', False); s.set('smt.mbqi', False); s.set('rlimit', 5_000_000)
    s.add(hyps); s.add(Not(goal)); return s.check()
def refute(name, hyps, goal, tl=60):
    s = Solver(); s.add(hyps); s.add(Not(goal))
    fn = os.path.join(OUTDIR, f'vc_{abs(hash(name))%10**8}.smt2')
    open(fn, 'w').write('(set-logic ALL)\n(set-option :produce-models true)\n' + s.to_smt2() + '(get-model)\n')
    r = subprocess.run(['/usr/bin/cvc5', '--finite-model-find', '--fmf-bound', f'--tlimit={tl*1000}', fn], capture_output=True, text=True)
    return r.stdout.split('\n')[0], r.stdout

def report(vcs):
    for name, hyps, goal in vcs:
        t0 = time.time(); r = prove(hyps, goal)
        line = f'  {name:62s} {"PROVED" if r == unsat else str(r):8s} {time.time()-t0:.2f}s'
        if r != unsat:
            t0 = time.time(); rr, out = refute(name, hyps, goal)
            line += f'   | cvc5-fmf: {rr} {time.time()-t0:.1f}s'
            if rr == 'sat':
                keep = [l.strip() for l in out.split('\n') if any(w in l for w in ('define-fun self ', 'define-fun kind ', 'define-fun any_kind', 'cardinality of Ref'))]
                line += '  ' + ' '.join(keep)[:160]
        print(line)

self_ = Const('self', Ref); kind = Const('kind', Kind); any_kind = Bool('any_kind')
clen = lambda x: If(f_children(x) == LNONE, 0, llen(f_children(x)))
# ---- has_children(kind)  : spec from C15: result <=> exists child with that kind   (kind != ANY_KIND fork)
print('TypedNode.has_children  (kind is not ANY_KIND fork)')
j = Int('j!s')
post = lambda rv: rv.z == Exists([j], And(0 <= j, j < clen(self_), f_kind(litem(f_children(self_), j)) == kind))
# the real body tests `kind is ANY_KIND`: model ANY_KIND name as the constant
report(run('TypedNode', 'has_children', {'self': V('ref', self_), 'kind': V('kind', kind), 'ANY_KIND': V('kind', ANY)},
           [self_ != NONE, kind != ANY], post))

# ---- next_sibling(any_kind=False) : nearest right neighbour (by identity position) with same kind, else None
print('TypedNode.next_sibling')
def post_ns(rv):
    pc = f_children(f_parent(self_)); me = pos(self_); k = Int('k!s')
    ok = lambda x: Or(any_kind, f_kind(x) == f_kind(self_))
    if rv.t == 'none':
        return ForAll([k], Implies(And(me < k, k < llen(pc)), Not(ok(litem(pc, k)))))
    m = Int('m!s')
    return Exists([m], And(me < m, m < llen(pc), litem(pc, m) == rv.z, ok(rv.z),
                           ForAll([k], Implies(And(me < k, k < m), Not(ok(litem(pc, k)))))))
def inv_ns(p, it):   # loop 1: no matching sibling strictly between own_idx and idx
    own = p.env['own_idx'].z; pc = p.env['pc'].z; k = Int('k!i')
    return And(own < it, it <= llen(pc), ForAll([k], Implies(And(own < k, k < it), Not(Or(any_kind, f_kind(litem(pc, k)) == f_kind(self_)))), patterns=[litem(pc, k)]))
report(run('TypedNode', 'next_sibling', {'self': V('ref', self_), 'any_kind': V('bool', any_kind)},
           [mem(self_)], post_ns, inv_ns))
