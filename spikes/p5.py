"""F35 (C18): TypedTree.save reads the tree before taking the tree lock.
Thread A sits inside `with tree:`; thread B calls tree.save(); every read of `node.kind` by B is logged
together with whether A is still inside its critical section."""
import io, threading, time
from nutree import TypedTree, Tree
from nutree.typed_tree import TypedNode

log = []
a_inside = threading.Event(); a_release = threading.Event()

class SpyNode(TypedNode):
    __slots__ = ()
    @property
    def kind(self):
        if threading.current_thread().name == "B":
            log.append(("B reads kind of %s" % self._data, "A inside critical section" if a_inside.is_set() and not a_release.is_set() else "lock free"))
        return self._kind

def run(tree_cls, label):
    log.clear(); a_inside.clear(); a_release.clear()
    kw = {"factory": SpyNode} if tree_cls is TypedTree else {}
    t = tree_cls("t", **kw)
    if tree_cls is TypedTree:
        f = t.add("f", kind="function"); f.add("c", kind="cause")
    else:
        t.add("f").add("c")
    done = threading.Event()
    def A():
        with t:
            a_inside.set(); a_release.wait(2.0)
            time.sleep(0.05)
    def B():
        a_inside.wait()
        t.save(io.StringIO()); done.set()
    ta = threading.Thread(target=A, name="A"); tb = threading.Thread(target=B, name="B")
    ta.start(); tb.start(); time.sleep(0.3)
    finished_while_locked = done.is_set()
    a_release.set(); ta.join(); tb.join()
    early = [e for e in log if e[1].startswith("A inside")]
    print(f"{label}: save() finished while A held the lock: {finished_while_locked}; reads by B during A's critical section: {len(early)}")
    for e in early[:4]: print("   ", e)

run(TypedTree, "TypedTree.save")
