from nutree import Tree, TypedTree
def trial(name, fn):
    print("-----", name)
    try:
        r = fn(); print("  ->", r)
    except BaseException as e:
        print("  EXC", type(e).__name__, str(e)[:160])
t = Tree("t"); t.add("A")
trial("F22 add(empty tree)", lambda: t.add(Tree("e")))
t = Tree("t"); a = t.add("A"); a.add(0); a.add("x")
trial("F23 node.find_all(0)", lambda: a.find_all(0))
trial("F23 tree.find_all(0)", lambda: t.find_all(0))
t = Tree("t"); a = t.add("A"); x = a.add("x")
trial("F25 set_data('y', data_id=0)", lambda: (x.set_data("y", data_id=0), x.data, x.data_id, t.find_all(data_id=0), t.find_all("y"), t.find_all("x")))
# F26: self is the inner clone
t = Tree("n"); a = t.add("A"); x = a.add("x"); b = x.add("B"); xi = b.add("x")
trial("F26 inner.remove(with_clones=True)", lambda: xi.remove(with_clones=True))
trial("   state", lambda: (t.count, len(list(t)), t._self_check()))
print(t.format(repr="{node.data}"))
# DOT double definition
t = Tree("d"); a = t.add("A"); b = a.add("B"); b.add("A")
lines = list(a.to_dot(add_self=True)); print("\n".join(l for l in lines if 'label' in l))
# keep_children order
t = Tree("k"); a = t.add("A"); a.add("p"); m = a.add("m"); m.add("c1"); m.add("c2"); a.add("q")
m.remove(keep_children=True); print([n.name for n in a.children])
