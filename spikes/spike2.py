import time, sys
from z3 import *
I = IntSort(); B = BoolSort()
AII = ArraySort(I, I)
Data = DeclareSort('Data')
deq = Function('deq', Data, Data, B)
root   = Int('root')
cnt = [0]
def fresh_arr(name, dom, rng):
    cnt[0]+=1
    return Array(f'{name}_{cnt[0]}', dom, rng)

class Heap:
    def __init__(self, tag):
        self.parent = Array('parent'+tag, I, I)
        self.chl    = Array('chl'+tag, I, I)
        self.llen   = Array('llen'+tag, I, I)
        self.litem  = Function('litem'+tag, I, I, I)   # listref, index -> node
        self.mem    = Array('mem'+tag, I, B)
        self.pos    = Array('pos'+tag, I, I)
data = Array('data', I, Data)

def clen(h, n): return If(h.chl[n] == 0, 0, h.llen[h.chl[n]])
def citem(h, n, i): return h.litem(h.chl[n], i)
def inP(h, p): return Or(h.mem[p], p == root)

def wf(h, tag):
    n, p, q, i, j = Ints(f'n{tag} p{tag} q{tag} i{tag} j{tag}')
    cs = []
    cs.append(root != 0); cs.append(Not(h.mem[root])); cs.append(Not(h.mem[0])); cs.append(h.parent[root] == 0)
    cs.append(ForAll([n], Implies(h.mem[n], And(inP(h, h.parent[n]), 0 <= h.pos[n], h.pos[n] < clen(h, h.parent[n]),
                                              citem(h, h.parent[n], h.pos[n]) == n)), patterns=[h.mem[n]]))
    cs.append(ForAll([p, i], Implies(And(inP(h, p), 0 <= i, i < clen(h, p)),
                                     And(h.mem[citem(h, p, i)], h.parent[citem(h, p, i)] == p,
                                         h.pos[citem(h, p, i)] == i)), patterns=[h.litem(h.chl[p], i)]))
    cs.append(ForAll([p, q], Implies(And(inP(h, p), inP(h, q), p != q, h.chl[p] != 0), h.chl[p] != h.chl[q]), patterns=[MultiPattern(h.chl[p], h.chl[q])]))
    cs.append(ForAll([p], Implies(And(inP(h,p), h.chl[p] != 0), h.llen[h.chl[p]] >= If(p==root,0,1)), patterns=[h.chl[p]]))
    return cs

self_, newp, fresh = Ints('self newp fresh')
USE_EQ = sys.argv[1] == 'eq'
s = Solver()
s.set('timeout', 120000)
h0 = Heap('0')
s.add(wf(h0, 'a'))
s.add(h0.mem[self_], inP(h0, newp))
k, l = Ints('k l')
s.add(fresh != 0, ForAll([k], h0.chl[k] != fresh, patterns=[h0.chl[k]]))

op = h0.parent[self_]
pl = h0.chl[op]
L = h0.llen[pl]
idx = Int('idx')
def hit(e):
    if USE_EQ:
        return Or(e == self_, deq(data[e], data[self_]))
    return e == self_
m = Int('m')
s.add(0 <= idx, idx < L, hit(h0.litem(pl, idx)), ForAll([m], Implies(And(0 <= m, m < idx), Not(hit(h0.litem(pl, m)))), patterns=[h0.litem(pl, m)]))
# state 1: after list.remove
h1 = Heap('1')
s.add(h1.parent == h0.parent, h1.mem == h0.mem)
s.add(h1.llen == Store(h0.llen, pl, L - 1))
s.add(ForAll([l, k], h1.litem(l, k) == If(l == pl, If(k < idx, h0.litem(l, k), h0.litem(l, k+1)), h0.litem(l, k)), patterns=[h1.litem(l, k)]))
s.add(h1.chl == If(L - 1 == 0, Store(h0.chl, op, 0), h0.chl))
# state 2: after re-attach
h2 = Heap('2')
s.add(h2.mem == h1.mem)
s.add(h2.parent == Store(h1.parent, self_, newp))
ts = h1.chl[newp]
s.add(h2.chl == If(ts == 0, Store(h1.chl, newp, fresh), h1.chl))
tl = If(ts == 0, fresh, ts)
oldlen = If(ts == 0, 0, h1.llen[ts])
s.add(h2.llen == Store(h1.llen, tl, oldlen + 1))
s.add(ForAll([l, k], h2.litem(l, k) == If(And(l == tl, k == oldlen), self_, h1.litem(l, k)), patterns=[h2.litem(l, k)]))
x = Int('x')
s.add(ForAll([x], h2.pos[x] == If(x == self_, oldlen, If(And(h0.parent[x] == op, h0.pos[x] > idx), h0.pos[x] - 1, h0.pos[x])), patterns=[h2.pos[x]]))

post = wf(h2, 'b')
names = ['root!=0','root notmem','0 notmem','parent root', 'W1','W3','W4','W5']
for nm, c in zip(names, post):
    s.push()
    s.add(Not(c))
    t0 = time.time()
    r = s.check()
    print(nm, r, round(time.time()-t0,2), s.reason_unknown() if r==unknown else '')
    if r == sat:
        mdl = s.model()
        print('  self', mdl[self_], 'newp', mdl[newp], 'idx', mdl[idx], 'L', mdl.eval(L), 'parent[self]', mdl.eval(op), 'pos[self]', mdl.eval(h0.pos[self_]),
              'A[0..2]', [mdl.eval(h0.litem(pl,t)) for t in range(3)])
    s.pop()
