# cvc5 finite model finding on move_to (== remove) VC, refs as uninterpreted sort
import sys, time, subprocess
from z3 import *
I = IntSort(); B = BoolSort()
R = DeclareSort('Ref'); Lr = DeclareSort('LRef'); Data = DeclareSort('Data')
deq = Function('deq', Data, Data, B); data = Function('data', R, Data)
root = Const('root', R); NONE = Const('NONE', R); LNONE = Const('LNONE', Lr)
class Heap:
    def __init__(self, tag):
        self.parent = Function('parent'+tag, R, R); self.chl = Function('chl'+tag, R, Lr)
        self.llen = Function('llen'+tag, Lr, I); self.litem = Function('litem'+tag, Lr, I, R)
        self.mem = Function('mem'+tag, R, B); self.pos = Function('pos'+tag, R, I); self.rank = Function('rank'+tag, R, I)
def clen(h, n): return If(h.chl(n) == LNONE, 0, h.llen(h.chl(n)))
def citem(h, n, i): return h.litem(h.chl(n), i)
def inP(h, p): return Or(h.mem(p), p == root)
def wf(h, tag):
    n, p, q = Consts(f'n{tag} p{tag} q{tag}', R); i = Int('i'+tag)
    cs = [root != NONE, Not(h.mem(root)), Not(h.mem(NONE)), h.parent(root) == NONE, h.rank(root) == 0]
    cs.append(ForAll([n], Implies(h.mem(n), And(inP(h, h.parent(n)), 0 <= h.pos(n), h.pos(n) < clen(h, h.parent(n)), citem(h, h.parent(n), h.pos(n)) == n, h.rank(n) == h.rank(h.parent(n)) + 1))))
    cs.append(ForAll([p, i], Implies(And(inP(h, p), 0 <= i, i < clen(h, p)), And(h.mem(citem(h, p, i)), h.parent(citem(h, p, i)) == p, h.pos(citem(h, p, i)) == i))))
    cs.append(ForAll([p, q], Implies(And(inP(h, p), inP(h, q), p != q, h.chl(p) != LNONE), h.chl(p) != h.chl(q))))
    cs.append(ForAll([p], Implies(And(inP(h, p), h.chl(p) != LNONE), h.llen(h.chl(p)) >= If(p == root, 0, 1))))
    return cs
self_, newp = Consts('self newp', R); fresh = Const('fresh', Lr); idx = Int('idx')
s = Solver(); h0, h1, h2 = Heap('0'), Heap('1'), Heap('2')
s.add(wf(h0, 'a')); s.add(h0.mem(self_), inP(h0, newp))
kk = Const('kk', R); l = Const('l', Lr); k = Int('k'); x = Const('x', R); m = Int('m')
s.add(fresh != LNONE, ForAll([kk], h0.chl(kk) != fresh))
s.add(ForAll([l], And(0 <= h0.llen(l), h0.llen(l) <= 4)))
op = h0.parent(self_); pl = h0.chl(op); L = h0.llen(pl)
hit = lambda e: Or(e == self_, deq(data(e), data(self_)))
s.add(0 <= idx, idx < L, hit(h0.litem(pl, idx)), ForAll([m], Implies(And(0 <= m, m < idx), Not(hit(h0.litem(pl, m))))))
s.add(ForAll([x], And(h1.parent(x) == h0.parent(x), h1.mem(x) == h0.mem(x), h1.chl(x) == If(And(L - 1 == 0, x == op), LNONE, h0.chl(x)))))
s.add(ForAll([l], h1.llen(l) == If(l == pl, L - 1, h0.llen(l))))
s.add(ForAll([l, k], Implies(And(0 <= k, k <= 5), h1.litem(l, k) == If(l == pl, If(k < idx, h0.litem(l, k), h0.litem(l, k + 1)), h0.litem(l, k)))))
ts = h1.chl(newp); tl = If(ts == LNONE, fresh, ts); oldlen = If(ts == LNONE, 0, h1.llen(ts))
s.add(ForAll([x], And(h2.mem(x) == h1.mem(x), h2.parent(x) == If(x == self_, newp, h1.parent(x)), h2.chl(x) == If(And(ts == LNONE, x == newp), fresh, h1.chl(x)),
      h2.pos(x) == If(x == self_, oldlen, If(And(h0.parent(x) == op, h0.pos(x) > idx), h0.pos(x) - 1, h0.pos(x))), h2.rank(x) == h0.rank(x))))
s.add(ForAll([l], h2.llen(l) == If(l == tl, oldlen + 1, h1.llen(l))))
s.add(ForAll([l, k], Implies(And(0 <= k, k <= 5), h2.litem(l, k) == If(And(l == tl, k == oldlen), self_, h1.litem(l, k)))))
s.add(h0.parent(self_) == newp)   # same-parent move keeps ranks valid: isolates the == defect
s.add(Not(And(wf(h2, 'b'))))
txt = '(set-logic ALL)\n(set-option :produce-models true)\n' + s.to_smt2() + '\n(get-value (root self newp idx (parent0 self) (llen0 (chl0 (parent0 self)))))\n'
import tempfile, os
fn = os.path.join(tempfile.mkdtemp(prefix='nutree-spike-'), 'q_fmf.smt2')
open(fn, 'w').write(txt)
r = subprocess.run(['/usr/bin/cvc5', '--finite-model-find', '--fmf-bound', '--tlimit=280000', fn], capture_output=True, text=True)
print(r.stdout[:600])
