import ast, sys, collections, pathlib
mods = ['node','tree','typed_tree','common','diff','dot','mermaid','rdf','fs','tree_generator']
stmt_kinds = collections.Counter(); call_attrs = collections.Counter(); call_names = collections.Counter()
per_fn = {}
for m in mods:
    src = pathlib.Path(f'/repo/nutree/{m}.py').read_text(); tree = ast.parse(src)
    def visit_fn(fn, qual):
        feats = set()
        for n in ast.walk(fn):
            if n is fn: continue
            if isinstance(n, (ast.FunctionDef, ast.Lambda)) : feats.add('nested-def' if isinstance(n, ast.FunctionDef) else 'lambda')
            if isinstance(n, (ast.Yield, ast.YieldFrom)): feats.add('generator')
            if isinstance(n, ast.Try): feats.add('try')
            if isinstance(n, ast.With): feats.add('with')
            if isinstance(n, ast.Nonlocal): feats.add('nonlocal')
            if isinstance(n, (ast.ListComp, ast.SetComp, ast.DictComp, ast.GeneratorExp)): feats.add(type(n).__name__)
            if isinstance(n, ast.Starred) or (isinstance(n, ast.Call) and any(k.arg is None for k in n.keywords)): feats.add('star-args')
            if isinstance(n, ast.JoinedStr): feats.add('fstring')
            if isinstance(n, ast.While): feats.add('while')
            if isinstance(n, ast.For): feats.add('for')
            if isinstance(n, ast.Call):
                if isinstance(n.func, ast.Attribute): call_attrs[n.func.attr] += 1
                elif isinstance(n.func, ast.Name): call_names[n.func.id] += 1
                if isinstance(n.func, ast.Name) and n.func.id == 'getattr': feats.add('getattr')
        per_fn[qual] = feats
    for node in tree.body:
        if isinstance(node, ast.FunctionDef): visit_fn(node, f'{m}.{node.name}')
        if isinstance(node, ast.ClassDef):
            for f in node.body:
                if isinstance(f, ast.FunctionDef): visit_fn(f, f'{m}.{node.name}.{f.name}')
print(len(per_fn), 'functions')
by = collections.defaultdict(list)
for q, fs in per_fn.items():
    for f in fs: by[f].append(q)
for f in ['nested-def','nonlocal','generator','try','with','star-args','getattr','lambda','ListComp','SetComp','DictComp','GeneratorExp','while']:
    print(f'{f:12s}', len(by[f]), ', '.join(by[f]))
print('builtin/name calls:', call_names.most_common(60))
print('method calls:', call_attrs.most_common(120))
