import traceback
from nutree import Tree, TypedTree, Node, SkipBranch, SelectBranch, StopTraversal, IterMethod
from nutree.typed_tree import ANY_KIND
def mk():
    t=Tree("t"); a=t.add("A"); a1=a.add("a1"); a1.add("a11"); a1.add("a12"); a.add("a2"); b=t.add("B"); b1=b.add("b1"); b1.add("b11"); return t
def show(t): print(t.format(repr="{node.data}"))
def trial(name, fn):
    print("-----", name)
    try:
        r = fn(); print("  ->", r)
    except Exception as e:
        print("  EXC", type(e).__name__, e)

# 1 find_all max_results on index path
t=mk(); t["B"].add("a1"); t["b1"].add("a1")
trial("find_all(data,max_results=1)", lambda: t.find_all("a1", max_results=1))
trial("find_all(data,max_results=2)", lambda: t.find_all("a1", max_results=2))
# 2 move into own descendant
t=mk()
trial("move A into a1", lambda: (t["A"].move_to(t["a1"]), t.count, len(list(t)), )[1:])
show(t)
# 3 add(tree, before=...) reverses source
t=mk(); s=Tree("s"); s.add("x"); s.add("y")
t.add(s, before=0); print([n.name for n in s.children]); show(t)
# 4 add_child same parent check
t=mk()
trial("A.add(a2 node) (same data under same parent)", lambda: t["A"].add(t["a2"]))
show(t); print(t.count, len(list(t)))
trial("a1.add(a2) where a2 sibling of a1: legal?", lambda: t["a1"].add(t["a2"]))
# 5 move_to creating dup
t=mk(); t["B"].add("a1")
trial("move a1(A) to B which has a1", lambda: t.find_all("a1")[0].move_to(t["B"]))
show(t)
# 6 remove keep_children dup
t=mk(); t["A"].add("a11")
trial("remove a1 keep_children with a11 sibling dup", lambda: t["a1"].remove(keep_children=True))
show(t)
# 7 set_data dup
t=mk()
trial("rename a1->a2", lambda: t["a1"].rename("a2"))
show(t)
# 8 add invalid before
t=mk()
c=t.count
trial("add before=foreign", lambda: t["A"].add("zz", before=t["b1"]))
print(t.count, len(list(t)), c)
trial("find zz", lambda: t.find_all("zz"))
t=mk()
trial("move_to before=foreign", lambda: t["a2"].move_to(t["B"], before=t["a1"]))
show(t); print(t.count, len(list(t)))
