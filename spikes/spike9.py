# hand-encoded VC: Tree._unregister preserves the index invariants I1/I2 (dict of lists with aliasing), E-matching only
import time
from z3 import *
I = IntSort(); B = BoolSort()
Ref = DeclareSort('Ref'); LRef = DeclareSort('LRef'); Id = DeclareSort('Id')
class H:
    def __init__(s, t):
        s.mem = Function('mem'+t, Ref, B); s.nid = Function('nid'+t, Ref, I); s.did = Function('did'+t, Ref, Id)
        s.domN = Function('domN'+t, I, B); s.valN = Function('valN'+t, I, Ref); s.cardN = Int('cardN'+t)
        s.domD = Function('domD'+t, Id, B); s.valD = Function('valD'+t, Id, LRef); s.cardD = Int('cardD'+t)
        s.llen = Function('llen'+t, LRef, I); s.litem = Function('litem'+t, LRef, I, Ref); s.cpos = Function('cpos'+t, Ref, I)
def inv(h, t):
    k = Int('k'+t); n = Const('n'+t, Ref); d, e = Consts(f'd{t} e{t}', Id); i = Int('i'+t)
    c = {}
    c['I1a'] = ForAll([k], Implies(h.domN(k), And(h.mem(h.valN(k)), h.nid(h.valN(k)) == k)), patterns=[h.valN(k)])
    c['I1b'] = ForAll([n], Implies(h.mem(n), And(h.domN(h.nid(n)), h.valN(h.nid(n)) == n)), patterns=[h.mem(n)])
    c['I2a'] = ForAll([d], Implies(h.domD(d), h.llen(h.valD(d)) > 0), patterns=[h.valD(d)])
    c['I2b'] = ForAll([d, i], Implies(And(h.domD(d), 0 <= i, i < h.llen(h.valD(d))),
                 And(h.mem(h.litem(h.valD(d), i)), h.did(h.litem(h.valD(d), i)) == d, h.cpos(h.litem(h.valD(d), i)) == i)), patterns=[h.litem(h.valD(d), i)])
    c['I2c'] = ForAll([n], Implies(h.mem(n), And(h.domD(h.did(n)), 0 <= h.cpos(n), h.cpos(n) < h.llen(h.valD(h.did(n))), h.litem(h.valD(h.did(n)), h.cpos(n)) == n)), patterns=[h.mem(n)])
    c['I2d'] = ForAll([d, e], Implies(And(h.domD(d), h.domD(e), d != e), h.valD(d) != h.valD(e)), patterns=[MultiPattern(h.valD(d), h.valD(e))])
    return c
h0, h1 = H('0'), H('1')
PI = Int('PI')    # index actually popped: i in the real code, 0 in the mutant
node = Const('node', Ref)
HYP = list(inv(h0, 'a').values()) + [h0.mem(node)]
# body (symbolically executed by hand):  del nbi[nid]; clones = nbd[did]; i = first j with clones[j] is node; pop(i); if not clones: del nbd[did]
nid0 = h0.nid(node); did0 = h0.did(node); cl = h0.valD(did0); i = Int('i'); j = Int('j')
HYP += [0 <= i, i < h0.llen(cl), h0.litem(cl, i) == node, ForAll([j], Implies(And(0 <= j, j < i), h0.litem(cl, j) != node), patterns=[h0.litem(cl, j)])]
k = Int('k'); n = Const('n', Ref); d = Const('d', Id); l = Const('l', LRef)
HYP += [ForAll([k], h1.domN(k) == And(h0.domN(k), k != nid0), patterns=[h1.domN(k)]), ForAll([k], h1.valN(k) == h0.valN(k), patterns=[h1.valN(k)]), h1.cardN == h0.cardN - 1]
HYP += [ForAll([l], h1.llen(l) == If(l == cl, h0.llen(l) - 1, h0.llen(l)), patterns=[h1.llen(l)])]
HYP += [ForAll([l, k], h1.litem(l, k) == If(And(l == cl, k >= PI), h0.litem(l, k + 1), h0.litem(l, k)), patterns=[h1.litem(l, k)])]
HYP += [ForAll([d], h1.domD(d) == And(h0.domD(d), Not(And(d == did0, h0.llen(cl) - 1 == 0))), patterns=[h1.domD(d)]), ForAll([d], h1.valD(d) == h0.valD(d), patterns=[h1.valD(d)])]
HYP += [h1.cardD == h0.cardD - If(h0.llen(cl) - 1 == 0, 1, 0)]
# node fields cleared / membership; ghost cpos shift
HYP += [ForAll([n], h1.mem(n) == And(h0.mem(n), n != node), patterns=[h1.mem(n)])]
HYP += [ForAll([n], h1.nid(n) == If(n == node, 0, h0.nid(n)), patterns=[h1.nid(n)]), ForAll([n], Implies(n != node, h1.did(n) == h0.did(n)), patterns=[h1.did(n)])]
HYP += [ForAll([n], h1.cpos(n) == If(And(h0.did(n) == did0, h0.cpos(n) > i), h0.cpos(n) - 1, h0.cpos(n)), patterns=[h1.cpos(n)])]
for label, pi in (('real code: clones.pop(i)', i), ('mutant: clones.pop(0)', IntVal(0))):
    print(label)
    for nm, g in list(inv(h1, 'b').items()) + [('FALSE (vacuity guard, must stay unproved)', BoolVal(False))]:
        s = SimpleSolver(); s.set('auto_config', False); s.set('smt.mbqi', False); s.set('rlimit', 20_000_000)
        s.add(HYP); s.add(PI == pi); s.add(Not(g)); t0 = time.time(); r = s.check()
        print('  ', nm, 'PROVED' if r == unsat else r, round(time.time() - t0, 2))
