# lemma-by-induction as the engine would check it: subtree transitivity, and Pre(n) ⊆ subtree(n)\{n}
from z3 import *
I = IntSort(); B = BoolSort(); Ref = DeclareSort('Ref'); PSeq = DeclareSort('PSeq')
mem = Function('mem', Ref, B); parent = Function('parent', Ref, Ref); rank = Function('rank', Ref, I); root = Const('root', Ref)
insub = Function('insub', Ref, Ref, B)     # insub(x, n): x in subtree(n)
x, c, n, y = Consts('x c n y', Ref)
AX = [ForAll([x, n], insub(x, n) == Or(x == n, And(mem(x), insub(parent(x), n))), patterns=[insub(x, n)]),   # definitional (recursion on rank)
      ForAll([x], Implies(mem(x), And(rank(x) == rank(parent(x)) + 1, rank(parent(x)) >= 0)), patterns=[mem(x)]),
      Not(mem(root)), rank(root) == 0]
def check(name, hyps, goal):
    s = SimpleSolver(); s.set('auto_config', False); s.set('smt.mbqi', False); s.set('rlimit', 20_000_000)
    s.add(AX); s.add(hyps); s.add(Not(goal)); r = s.check(); print(f'{name:55s}', 'PROVED' if r == unsat else r)
# Lemma T(x,c,n): insub(x,c) ∧ insub(c,n) ⇒ insub(x,n);  decreases rank(x)   [body: if x == c: return; T(parent(x), c, n)]
X, C, N = Consts('X C N', Ref)
pre = [insub(X, C), insub(C, N)]
check('T: branch x==c', pre + [X == C], insub(X, N))
# recursive call: precondition of callee + measure decreases + bounded below
check('T: call pre  insub(parent x, c)', pre + [X != C], And(insub(parent(X), C), insub(C, N)))
check('T: decreases rank(parent x) < rank(x), >= 0', pre + [X != C], And(rank(parent(X)) < rank(X), rank(parent(X)) >= 0))
check('T: post after call', pre + [X != C, insub(parent(X), N)], insub(X, N))     # IH result assumed
check('T: vacuity guard', pre + [X != C, insub(parent(X), N)], BoolVal(False))

# Pre/PreL axioms + lemma  E(n,i,k): k < Len(PreL(n,i)) ⇒ insub(At(PreL(n,i),k), n) ∧ At(...) != n ; decreases (height(n), i) -- step VC only
Len = Function('Len', PSeq, I); At = Function('At', PSeq, I, Ref); Empty = Const('Empty', PSeq); Single = Function('Single', Ref, PSeq); App = Function('App', PSeq, PSeq, PSeq)
Ch = Function('Ch', Ref, PSeq); Pre = Function('Pre', Ref, PSeq); PreL = Function('PreL', Ref, I, PSeq)
s_, t_ = Consts('s_ t_', PSeq); i, k, v = Ints('i k v'); v = Const('v', Ref)
AX += [ForAll([s_], Len(s_) >= 0, patterns=[Len(s_)]), Len(Empty) == 0, ForAll([v], And(Len(Single(v)) == 1, At(Single(v), 0) == v), patterns=[Single(v)]),
       ForAll([s_, t_], Len(App(s_, t_)) == Len(s_) + Len(t_), patterns=[App(s_, t_)]),
       ForAll([s_, t_, i], And(Implies(And(0 <= i, i < Len(s_)), At(App(s_, t_), i) == At(s_, i)), Implies(Len(s_) <= i, At(App(s_, t_), i) == At(t_, i - Len(s_)))), patterns=[At(App(s_, t_), i)]),
       ForAll([n], PreL(n, 0) == Empty, patterns=[PreL(n, 0)]),
       ForAll([n, i], Implies(And(0 <= i, i < Len(Ch(n))), PreL(n, i + 1) == App(App(PreL(n, i), Single(At(Ch(n), i))), Pre(At(Ch(n), i)))), patterns=[PreL(n, i + 1)]),
       ForAll([n], Pre(n) == PreL(n, Len(Ch(n))), patterns=[Pre(n)]),
       # wf slice: children are members with parent pointer back
       ForAll([n, i], Implies(And(0 <= i, i < Len(Ch(n))), And(mem(At(Ch(n), i)), parent(At(Ch(n), i)) == n)), patterns=[At(Ch(n), i)])]
Nn = Const('Nn', Ref); Ii, Kk = Ints('Ii Kk'); cc = At(Ch(Nn), Ii); kq = Int('kq')
good = lambda seq, kk, top: And(insub(At(seq, kk), top), At(seq, kk) != top)
IH_i = ForAll([kq], Implies(And(0 <= kq, kq < Len(PreL(Nn, Ii))), good(PreL(Nn, Ii), kq, Nn)), patterns=[At(PreL(Nn, Ii), kq)])
IH_c = ForAll([kq], Implies(And(0 <= kq, kq < Len(Pre(cc))), good(Pre(cc), kq, cc)), patterns=[At(Pre(cc), kq)])
Tlem = ForAll([x, c, n], Implies(And(insub(x, c), insub(c, n)), insub(x, n)), patterns=[MultiPattern(insub(x, c), insub(c, n))])   # lemma T, proved above
Rk = ForAll([x, n], Implies(And(insub(x, n), x != n), rank(x) > rank(n)), patterns=[insub(x, n)])                                  # another lemma (L2), assumed here
hy = [0 <= Ii, Ii < Len(Ch(Nn)), IH_i, IH_c, Tlem, Rk, 0 <= Kk, Kk < Len(PreL(Nn, Ii + 1))]
check('E: step (n,i)->(n,i+1)', hy, good(PreL(Nn, Ii + 1), Kk, Nn))
check('E: vacuity guard', hy, BoolVal(False))
print('--- with intermediate asserts (as a lemma body would state them)')
check('E: assert insub(c, n) and c != n', hy, And(insub(cc, Nn), cc != Nn))
hint = [insub(cc, Nn), cc != Nn]
L0 = Len(PreL(Nn, Ii))
check('E: case k < len(PreL(n,i))', hy + hint + [Kk < L0], good(PreL(Nn, Ii + 1), Kk, Nn))
check('E: case k == len', hy + hint + [Kk == L0], good(PreL(Nn, Ii + 1), Kk, Nn))
check('E: case k > len', hy + hint + [Kk > L0], good(PreL(Nn, Ii + 1), Kk, Nn))
check('E: step with hints, no manual case split', hy + hint, good(PreL(Nn, Ii + 1), Kk, Nn))
