# move_to with identity-remove + ancestry precondition; ghosts: pos, rank, anc.  Prove wf' incl. acyclicity clauses.
import time, sys
from z3 import *
I = IntSort(); B = BoolSort()
root = Int('root')
class Heap:
    def __init__(self, tag):
        self.parent = Function('parent'+tag, I, I); self.chl = Function('chl'+tag, I, I)
        self.llen = Function('llen'+tag, I, I); self.litem = Function('litem'+tag, I, I, I)
        self.mem = Function('mem'+tag, I, B); self.pos = Function('pos'+tag, I, I)
        self.rank = Function('rank'+tag, I, I); self.anc = Function('anc'+tag, I, I, B)
def clen(h, n): return If(h.chl(n) == 0, 0, h.llen(h.chl(n)))
def citem(h, n, i): return h.litem(h.chl(n), i)
def inP(h, p): return Or(h.mem(p), p == root)
def wf(h, tag):
    n, p, q, i, a, b, c = Ints(f'n{tag} p{tag} q{tag} i{tag} a{tag} b{tag} c{tag}')
    cs = {}
    cs['base'] = And(root != 0, Not(h.mem(root)), Not(h.mem(0)), h.parent(root) == 0, h.rank(root) == 0)
    cs['W1'] = ForAll([n], Implies(h.mem(n), And(inP(h, h.parent(n)), 0 <= h.pos(n), h.pos(n) < clen(h, h.parent(n)), citem(h, h.parent(n), h.pos(n)) == n)), patterns=[h.mem(n)])
    cs['W3'] = ForAll([p, i], Implies(And(inP(h, p), 0 <= i, i < clen(h, p)), And(h.mem(citem(h, p, i)), h.parent(citem(h, p, i)) == p, h.pos(citem(h, p, i)) == i)), patterns=[h.litem(h.chl(p), i)])
    cs['W4'] = ForAll([p, q], Implies(And(inP(h, p), inP(h, q), p != q, h.chl(p) != 0), h.chl(p) != h.chl(q)), patterns=[MultiPattern(h.chl(p), h.chl(q))])
    cs['W5'] = ForAll([p], Implies(And(inP(h, p), h.chl(p) != 0), h.llen(h.chl(p)) >= If(p == root, 0, 1)), patterns=[h.chl(p)])
    cs['R1'] = ForAll([n], Implies(h.mem(n), h.rank(n) == h.rank(h.parent(n)) + 1), patterns=[h.rank(n)])
    # anc(a,x): a is a proper ancestor of x (a in P, x member)
    cs['A1'] = ForAll([a, n], Implies(h.mem(n), h.anc(a, n) == Or(a == h.parent(n), h.anc(a, h.parent(n)))), patterns=[h.anc(a, n)])
    cs['A2'] = ForAll([a], Not(h.anc(a, root)), patterns=[h.anc(a, root)])
    cs['A3'] = ForAll([a, n], Implies(And(h.mem(n), h.anc(a, n)), h.rank(a) < h.rank(n)), patterns=[h.anc(a, n)])
    return cs
self_, newp, fresh, idx = Ints('self newp fresh idx')
k, l, x, a = Ints('k l x a')
h0, h1, h2 = Heap('0'), Heap('1'), Heap('2')
H = []
H += list(wf(h0, 'a').values())
H += [h0.mem(self_), inP(h0, newp), newp != self_, Not(h0.anc(self_, newp))]
H += [fresh != 0, ForAll([k], h0.chl(k) != fresh, patterns=[h0.chl(k)])]
op = h0.parent(self_); pl = h0.chl(op); L = h0.llen(pl)
m = Int('m')
H += [0 <= idx, idx < L, h0.litem(pl, idx) == self_, ForAll([m], Implies(And(0 <= m, m < idx), h0.litem(pl, m) != self_), patterns=[h0.litem(pl, m)])]
H += [ForAll([x], And(h1.parent(x) == h0.parent(x), h1.mem(x) == h0.mem(x)), patterns=[h1.parent(x)]), ForAll([x], h1.mem(x) == h0.mem(x), patterns=[h1.mem(x)])]
H += [ForAll([l], h1.llen(l) == If(l == pl, L - 1, h0.llen(l)), patterns=[h1.llen(l)])]
H += [ForAll([l, k], h1.litem(l, k) == If(l == pl, If(k < idx, h0.litem(l, k), h0.litem(l, k + 1)), h0.litem(l, k)), patterns=[h1.litem(l, k)])]
H += [ForAll([x], h1.chl(x) == If(And(L - 1 == 0, x == op), 0, h0.chl(x)), patterns=[h1.chl(x)])]
ts = h1.chl(newp); tl = If(ts == 0, fresh, ts); oldlen = If(ts == 0, 0, h1.llen(ts))
H += [ForAll([x], h2.mem(x) == h1.mem(x), patterns=[h2.mem(x)]), ForAll([x], h2.parent(x) == If(x == self_, newp, h1.parent(x)), patterns=[h2.parent(x)])]
H += [ForAll([x], h2.chl(x) == If(And(ts == 0, x == newp), fresh, h1.chl(x)), patterns=[h2.chl(x)])]
H += [ForAll([l], h2.llen(l) == If(l == tl, oldlen + 1, h1.llen(l)), patterns=[h2.llen(l)])]
H += [ForAll([l, k], h2.litem(l, k) == If(And(l == tl, k == oldlen), self_, h1.litem(l, k)), patterns=[h2.litem(l, k)])]
# ghost updates
insub = lambda y: Or(y == self_, h0.anc(self_, y))
H += [ForAll([x], h2.pos(x) == If(x == self_, oldlen, If(And(h0.parent(x) == op, h0.pos(x) > idx), h0.pos(x) - 1, h0.pos(x))), patterns=[h2.pos(x)])]
H += [ForAll([x], h2.rank(x) == If(insub(x), h0.rank(x) - h0.rank(self_) + h0.rank(newp) + 1, h0.rank(x)), patterns=[h2.rank(x)])]
H += [ForAll([a, x], h2.anc(a, x) == If(insub(x), Or(And(h0.anc(a, x), insub(a)), a == newp, h0.anc(a, newp)), h0.anc(a, x)), patterns=[h2.anc(a, x)])]
post = wf(h2, 'b')
for nm, c in post.items():
    s = Solver(); s.set('timeout', 60000); s.set('auto_config', False); s.set('smt.mbqi', False)
    s.add(H); s.add(Not(c))
    t0 = time.time(); r = s.check()
    print(nm, 'PROVED' if r == unsat else r, round(time.time() - t0, 2), '' if r == unsat else s.reason_unknown())

print('--- debug A1 by cases')
a_, n_ = Ints('a_ n_')
h=h2
goal = lambda: h.anc(a_, n_) == Or(a_ == h.parent(n_), h.anc(a_, h.parent(n_)))
cases = {'n==self': n_ == self_, 'n in sub': And(n_ != self_, h0.anc(self_, n_)), 'n notin sub': And(n_ != self_, Not(h0.anc(self_, n_)))}
for nm, cnd in cases.items():
    for extra_nm, extra in {'plain': [], 'hint': [h0.anc(self_, h0.parent(n_)) == h0.anc(self_, h0.parent(n_)), h0.anc(a_, h0.parent(n_)) == h0.anc(a_, h0.parent(n_)), h0.anc(self_, a_) == h0.anc(self_, a_), h0.anc(a_, newp)==h0.anc(a_, newp), h2.anc(a_, h0.parent(n_)) == h2.anc(a_, h0.parent(n_)), h0.anc(self_, newp)==h0.anc(self_, newp)]}.items():
        s = Solver(); s.set('timeout', 60000); s.set('auto_config', False); s.set('smt.mbqi', False)
        s.add(H); s.add(h0.mem(n_), cnd); s.add(extra); s.add(Not(goal()))
        t0 = time.time(); r = s.check()
        print(nm, extra_nm, 'PROVED' if r == unsat else r, round(time.time() - t0, 2))
