import deal
from nutree import Tree

@deal.pre(lambda n_clones, k: 1 <= n_clones <= 4 and 1 <= k <= 5)
@deal.ensure(lambda n_clones, k, result: result == min(n_clones, k))
def find_all_limit(n_clones: int, k: int) -> int:
    t = Tree("t")
    for i in range(n_clones):
        p = t.add(f"p{i}")
        p.add("x")
    return len(t.find_all("x", max_results=k))
