# Spike: Dafny-prelude-style sequences + recursive spec pre(n); VC for Node._iter_pre (hand-built, mimicking symbolic execution)
import time, sys, os, tempfile
OUT = tempfile.mkdtemp(prefix='nutree-spike-')
from z3 import *
I = IntSort(); B = BoolSort()
Seq = DeclareSort('Seq')
Len = Function('Len', Seq, I)
At  = Function('At', Seq, I, I)
Empty = Const('Empty', Seq)
Single = Function('Single', I, Seq)
App = Function('App', Seq, Seq, Seq)
s, t, u = Consts('s t u', Seq)
i, j, k, n, v = Ints('i j k n v')
AX = []
AX.append(ForAll([s], Len(s) >= 0, patterns=[Len(s)]))
AX.append(Len(Empty) == 0)
AX.append(ForAll([s], Implies(Len(s) == 0, s == Empty), patterns=[Len(s)]))
AX.append(ForAll([v], Len(Single(v)) == 1, patterns=[Single(v)]))
AX.append(ForAll([v], At(Single(v), 0) == v, patterns=[Single(v)]))
AX.append(ForAll([s, t], Len(App(s, t)) == Len(s) + Len(t), patterns=[App(s, t)]))
AX.append(ForAll([s, t, i], And(Implies(And(0 <= i, i < Len(s)), At(App(s, t), i) == At(s, i)),
                                 Implies(And(Len(s) <= i), At(App(s, t), i) == At(t, i - Len(s)))), patterns=[At(App(s, t), i)]))
# extensionality
SeqEq = Function('SeqEq', Seq, Seq, B)
AX.append(ForAll([s, t], SeqEq(s, t) == And(Len(s) == Len(t), ForAll([j], Implies(And(0 <= j, j < Len(s)), At(s, j) == At(t, j)), patterns=[At(s, j)], )), patterns=[SeqEq(s, t)]))
AX.append(ForAll([s, t], Implies(SeqEq(s, t), s == t), patterns=[SeqEq(s, t)]))

# heap: children(n) : Seq  (abstracting the list object for this read-only spike)
Ch = Function('Ch', I, Seq)
# spec functions
Pre  = Function('Pre', I, Seq)          # preorder of descendants of n
PreL = Function('PreL', I, I, Seq)      # preorder contribution of first i children
AX.append(ForAll([n], PreL(n, 0) == Empty, patterns=[PreL(n, 0)]))
AX.append(ForAll([n, i], Implies(And(0 <= i, i < Len(Ch(n))),
            PreL(n, i + 1) == App(App(PreL(n, i), Single(At(Ch(n), i))), Pre(At(Ch(n), i)))), patterns=[PreL(n, i)]))
AX.append(ForAll([n], Pre(n) == PreL(n, Len(Ch(n))), patterns=[Pre(n)]))

def prove(name, hyps, goal, timeout=30000):
    so = Solver(); so.set('timeout', timeout); so.set('auto_config', False); so.set('smt.mbqi', False)
    so.add(AX); so.add(hyps); so.add(Not(goal))
    t0 = time.time(); r = so.check()
    print(name, 'PROVED' if r == unsat else r, round(time.time() - t0, 2))

self_ = Int('self')
Y0, Y1, Y2, Y3 = Consts('Y0 Y1 Y2 Y3', Seq)   # yielded sequence at various points
# _iter_pre:  children = self._children; if children: for c in children: yield c; yield from c._iter_pre()
# loop invariant at index i: yielded == PreL(self, i)
# (a) entry: i=0, yielded = Empty
prove('inv-entry', [], SeqEq(Empty, PreL(self_, 0)))
# (b) preservation: assume inv at i, i < len; c = Ch[i]; Y1 = App(Y0,[c]); callee contract: yields Pre(c); Y2 = App(Y1, Pre(c))
c = At(Ch(self_), i)
hyps = [0 <= i, i < Len(Ch(self_)), Y0 == PreL(self_, i), Y1 == App(Y0, Single(c)), Y2 == App(Y1, Pre(c))]
prove('inv-preserve', hyps, SeqEq(Y2, PreL(self_, i + 1)))
# (c) exit: i == len -> yielded == Pre(self)
prove('post', [i == Len(Ch(self_)), Y0 == PreL(self_, i)], SeqEq(Y0, Pre(self_)))
# (d) children None/empty path: yields nothing, Pre(self) must be Empty
prove('post-empty', [Len(Ch(self_)) == 0], SeqEq(Empty, Pre(self_)))
# mutated code: yield from before yield c  -> should NOT be provable
hyps = [0 <= i, i < Len(Ch(self_)), Y0 == PreL(self_, i), Y1 == App(Y0, Pre(c)), Y2 == App(Y1, Single(c))]
prove('MUTANT inv-preserve (expect not proved)', hyps, SeqEq(Y2, PreL(self_, i + 1)), 5000)

# _iter_post spec
Post = Function('Post', I, Seq); PostL = Function('PostL', I, I, Seq)
AX.append(ForAll([n], PostL(n, 0) == Empty, patterns=[PostL(n, 0)]))
AX.append(ForAll([n, i], Implies(And(0 <= i, i < Len(Ch(n))),
            PostL(n, i + 1) == App(App(PostL(n, i), Post(At(Ch(n), i))), Single(At(Ch(n), i)))), patterns=[PostL(n, i)]))
AX.append(ForAll([n], Post(n) == PostL(n, Len(Ch(n))), patterns=[Post(n)]))
hyps = [0 <= i, i < Len(Ch(self_)), Y0 == PostL(self_, i), Y1 == App(Y0, Post(c)), Y2 == App(Y1, Single(c))]
prove('post-order inv-preserve', hyps, SeqEq(Y2, PostL(self_, i + 1)))

# count_descendants: i counts nodes of Pre(self): loop over Pre(self) with counter; post result == Len(Pre(self))
# lemma wanted: Len(Pre(n)) >= Len(Ch(n))  (needs induction) -- skip

so = Solver(); so.add(AX)
hyps = [0 <= i, i < Len(Ch(self_)), Y0 == PreL(self_, i), Y1 == App(Y0, Single(c)), Y2 == App(Y1, Pre(c))]
so.add(hyps); so.add(Not(SeqEq(Y2, PreL(self_, i + 1))))
open(os.path.join(OUT,'q_good.smt2'),'w').write('(set-logic ALL)\n' + so.to_smt2())
so = Solver(); so.add(AX)
hyps = [0 <= i, i < Len(Ch(self_)), Y0 == PreL(self_, i), Y1 == App(Y0, Pre(c)), Y2 == App(Y1, Single(c))]
so.add(hyps); so.add(Not(SeqEq(Y2, PreL(self_, i + 1))))
open(os.path.join(OUT,'q_bad.smt2'),'w').write('(set-logic ALL)\n' + so.to_smt2())

print('SMT-LIB dumps for the cvc5 cross-check written to', OUT)
