import io, json
from nutree import Tree, TypedTree, Node, SkipBranch, SelectBranch, StopTraversal, IterMethod
def trial(name, fn):
    print("-----", name)
    try:
        r = fn(); print("  ->", r)
    except BaseException as e:
        print("  EXC", type(e).__name__, str(e)[:160])
def rt(t, cls=Tree, **kw):
    fp = io.StringIO(); t.save(fp, **kw); fp.seek(0); print("  json:", fp.getvalue()[:300]); fp.seek(0)
    t2 = cls.load(fp); return t2.format(repr="{node.data}#{node.data_id}")
# clone below a sibling of its first occurrence
t = Tree("s"); a = t.add("A"); x = a.add("x"); b = a.add("B"); b.add("x")
print(t.format(repr="{node.data}"))
trial("roundtrip clone under sibling of first occurrence", lambda: rt(t))
# F29: same data, different explicit ids, one of them cloned
t = Tree("s"); p1 = t.add("P1"); p2 = t.add("P2"); p3 = t.add("P3")
p1.add("x", data_id=7); p2.add("x", data_id=8); p3.add("x", data_id=7)
trial("roundtrip explicit ids", lambda: rt(t))
# to_dict_list on emptied tree
t = Tree("e"); t.add("A"); t.clear()
trial("to_dict_list after clear", lambda: t.to_dict_list())
t = Tree("e"); 
trial("to_dict_list fresh empty", lambda: t.to_dict_list())
# typed: add existing node loses kind
tt = TypedTree("tt"); f = tt.add("f", kind="function"); c1 = f.add("c1", kind="cause"); g = tt.add("g", kind="function")
n = g.add(c1); print("  kind of shallow copy:", n.kind)
n = tt.add(f, deep=True) if False else None
trial("typed deep copy kinds", lambda: [(m.name, m.kind) for m in g.add(f, deep=True).tree])
# update_meta replace with {}
t = Tree("m"); n = t.add("A"); n.update_meta({}, replace=True); print("  meta after update_meta({},replace):", n.meta)
# add with bad before on a leaf (children None)
t = Tree("m"); n = t.add("A")
trial("leaf.add(before=2)", lambda: n.add("x", before=2)); print("  count", t.count, "iter", len(list(t)))
trial("shallow add with node_id", lambda: t.add(n.add("y"), node_id=5) )
# remove with_clones nested
t = Tree("n"); a = t.add("A"); x = a.add("x"); b = x.add("B"); b.add("x")
print(t.format(repr="{node.data}"))
trial("remove nested clones", lambda: x.remove(with_clones=True)); 
trial("state", lambda: (t.count, len(list(t)), t._self_check()))
