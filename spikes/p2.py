import io, json
from nutree import Tree, TypedTree, Node, SkipBranch, SelectBranch, StopTraversal, IterMethod
from nutree.typed_tree import ANY_KIND
def mk():
    t=Tree("t"); a=t.add("A"); a1=a.add("a1"); a1.add("a11"); a1.add("a12"); a.add("a2"); b=t.add("B"); b1=b.add("b1"); b1.add("b11"); return t
def show(t): print(t.format(repr="{node.data}"))
def trial(name, fn):
    print("-----", name)
    try:
        r = fn(); print("  ->", r)
    except BaseException as e:
        print("  EXC", type(e).__name__, str(e)[:200])

# equal-comparing siblings
t=Tree("e"); p=t.add("P"); x1=p.add("x", data_id=1); x2=p.add("x", data_id=2); y=p.add("y")
trial("x2.get_index()", lambda: x2.get_index())
trial("x2.prev_sibling() is x1", lambda: x2.prev_sibling() is x1)
trial("x2.next_sibling()", lambda: x2.next_sibling())
trial("x2.remove()", lambda: x2.remove())
print([ (c.name,c.data_id) for c in p.children], t.count, len(list(t)))
trial("selfcheck", lambda: t._self_check())
# add before=False
t=mk(); t["A"].add("z", before=False); show(t)
# deep copy into own descendant
import sys; sys.setrecursionlimit(300)
t=mk()
trial("a1.add(A, deep=True)", lambda: t["a1"].add(t["A"], deep=True))
print(t.count)
# filter SkipBranch(and_self=False)
t=mk()
def pred(n):
    if n.name=="a1": return SkipBranch(and_self=False)
    return True
trial("filter skip and_self False", lambda: t.filter(pred)); show(t)
t=mk()
def pred(n):
    if n.name=="a1": return SelectBranch()
    return False
trial("filter SelectBranch", lambda: t.filter(pred)); show(t)
t=mk()
trial("filtered SelectBranch", lambda: show(t.filtered(pred)))
def pred(n):
    if n.name=="a1": return SkipBranch(and_self=False)
    return n.name in("b11",)
trial("filtered skip and_self False", lambda: show(t.filtered(pred)))
t=mk()
trial("filter same", lambda: t.filter(pred)); show(t)
# typed
tt=TypedTree("tt"); f=tt.add("f", kind="function"); c1=f.add("c1",kind="cause"); e1=f.add("e1",kind="effect"); c2=f.add("c2",kind="cause")
trial("has_children(effect)", lambda: f.has_children("effect"))
trial("c1.next_sibling()", lambda: c1.next_sibling())
trial("e1.next_sibling(any)", lambda: e1.next_sibling(any_kind=True))
trial("f.get_index()", lambda: f.get_index())
trial("f.prepend_child", lambda: f.prepend_child("zz", kind="cause"))
trial("c1.append_sibling", lambda: c1.append_sibling("zz2"))
trial("tt.copy()", lambda: (type(tt.copy()), [type(n).__name__ for n in tt.copy()]))
trial("f.copy()", lambda: [ (n.name, n.kind) for n in f.copy()])
trial("tt.save compression", lambda: tt.save(__import__("tempfile").mktemp(suffix=".zip"), compression=True))
